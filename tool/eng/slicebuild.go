package eng

import (
	"fmt"
	"go/ast"
	"go/constant"
	"go/token"
	"go/types"
)

// Slice-builder summaries. A function that builds an []int from two bounds is summarised, on
// each of the two regions  P <= 0  and  P >= 1  of a pivot quantity P (an affine form of the
// bounds), by the slices it delivers: their length and their element at index I, both affine.
// The summary is computed by abstract execution of the statements (affine environment, every
// path; a condition `A REL c` whose truth the region decides takes one branch, any other
// condition forks), so it does not depend on how the builder is written: early return or
// clamp, range or counted loop, indexed store or append, element computed or carried in an
// induction variable.

type BuiltSlice struct {
	Len     Aff
	LenOK   bool
	Elem    Aff // in the symbol I
	HasElem bool
	Covered bool // every index below Len is stored unconditionally
	Pos     token.Pos
	Note    string
}

type BuildSummary struct {
	Results  []BuiltSlice // one per path that delivers a slice
	Skips    int          // paths that leave without delivering
	Problems []string
}

type SliceBuild struct {
	Info *types.Info
	Sym  func(ast.Expr) (string, bool)
	// Sink: the slice expression a statement delivers (a return value, the payload of a patch)
	Sink func(ast.Stmt) (ast.Expr, bool)
	// Pivot and Region (-1: pivot <= 0, +1: pivot >= 1) decide comparisons.
	Pivot  Aff
	Region int

	out   *BuildSummary
	steps int
}

type sbState struct {
	env       map[types.Object]Aff
	slices    map[types.Object]*BuiltSlice
	delivered bool
	// pin: the branch taken has narrowed the pivot to one value inside the region
	// (`if size < 0 {…}` not taken where size <= 0 is known: size == 0)
	pin *int64
}

func (s *sbState) clone() *sbState {
	c := &sbState{env: map[types.Object]Aff{}, slices: map[types.Object]*BuiltSlice{}, delivered: s.delivered, pin: s.pin}
	for k, v := range s.env {
		c.env[k] = v
	}
	for k, v := range s.slices {
		w := *v
		c.slices[k] = &w
	}
	return c
}

func (sb *SliceBuild) Run(body []ast.Stmt, bind map[types.Object]Aff) *BuildSummary {
	sb.out = &BuildSummary{}
	st := &sbState{env: map[types.Object]Aff{}, slices: map[types.Object]*BuiltSlice{}}
	for k, v := range bind {
		st.env[k] = v
	}
	sb.list(body, st, sb.leave)
	return sb.out
}

// leave: a path ends; it is a skip when it delivered nothing.
func (sb *SliceBuild) leave(st *sbState) {
	if !st.delivered {
		sb.out.Skips++
	}
}

func (sb *SliceBuild) aenv(st *sbState) *AffEnv {
	return &AffEnv{Info: sb.Info, Vars: st.env, Sym: func(e ast.Expr) (string, bool) {
		// len(s) of a tracked slice is not a symbol: handled by eval
		if sb.Sym != nil {
			return sb.Sym(e)
		}
		return "", false
	}}
}

func (sb *SliceBuild) eval(st *sbState, e ast.Expr) (Aff, bool) {
	a, ok := sb.eval0(st, e)
	if ok && st.pin != nil && !a.IsConst() {
		// a = k·pivot + c with the pivot pinned
		for _, k := range []int64{1, -1} {
			if rest := a.Add(sb.Pivot, -k); rest.IsConst() {
				return AffConst(rest.C + k*(*st.pin)), true
			}
		}
	}
	return a, ok
}

// pinned: the single value of the pivot that the given outcome of c leaves inside the region,
// if it leaves exactly one.
func (sb *SliceBuild) pinned(st *sbState, c ast.Expr, outcome bool) (int64, bool) {
	x, ok := Unparen(c).(*ast.BinaryExpr)
	if !ok {
		return 0, false
	}
	op := x.Op
	if !outcome {
		neg := map[token.Token]token.Token{token.LSS: token.GEQ, token.GEQ: token.LSS, token.GTR: token.LEQ, token.LEQ: token.GTR, token.EQL: token.NEQ, token.NEQ: token.EQL}
		n, ok := neg[op]
		if !ok {
			return 0, false
		}
		op = n
	}
	l, ok1 := sb.eval(st, x.X)
	r, ok2 := sb.eval(st, x.Y)
	if !ok1 || !ok2 {
		return 0, false
	}
	d := l.Add(r, -1)
	sign := int64(1)
	rest := d.Add(sb.Pivot, -1)
	if !rest.IsConst() {
		rest = d.Add(sb.Pivot, 1)
		sign = -1
		if !rest.IsConst() {
			return 0, false
		}
	}
	c0 := rest.C
	// sign·P + c0 OP 0  as a bound on P
	var lo, hi int64
	hasLo, hasHi := false, false
	switch op {
	case token.GEQ:
		if sign > 0 {
			lo, hasLo = -c0, true
		} else {
			hi, hasHi = c0, true
		}
	case token.GTR:
		if sign > 0 {
			lo, hasLo = -c0+1, true
		} else {
			hi, hasHi = c0-1, true
		}
	case token.LEQ:
		if sign > 0 {
			hi, hasHi = -c0, true
		} else {
			lo, hasLo = c0, true
		}
	case token.LSS:
		if sign > 0 {
			hi, hasHi = -c0-1, true
		} else {
			lo, hasLo = c0+1, true
		}
	case token.EQL:
		v := -c0
		if sign < 0 {
			v = c0
		}
		if (sb.Region < 0 && v <= 0) || (sb.Region > 0 && v >= 1) {
			return v, true
		}
		return 0, false
	default:
		return 0, false
	}
	if sb.Region < 0 && hasLo && lo == 0 {
		return 0, true
	}
	if sb.Region > 0 && hasHi && hi == 1 {
		return 1, true
	}
	return 0, false
}

func (sb *SliceBuild) eval0(st *sbState, e ast.Expr) (Aff, bool) {
	e = Unparen(e)
	if c, ok := e.(*ast.CallExpr); ok && len(c.Args) == 1 {
		if id, ok := c.Fun.(*ast.Ident); ok && id.Name == "len" {
			if _, isB := sb.Info.Uses[id].(*types.Builtin); isB {
				if b := sb.sliceOf(st, c.Args[0]); b != nil && b.LenOK {
					return b.Len, true
				}
				return Aff{}, false
			}
		}
	}
	if be, ok := e.(*ast.BinaryExpr); ok && (be.Op == token.ADD || be.Op == token.SUB) {
		l, ok1 := sb.eval(st, be.X)
		r, ok2 := sb.eval(st, be.Y)
		if ok1 && ok2 {
			if be.Op == token.ADD {
				return l.Add(r, 1), true
			}
			return l.Add(r, -1), true
		}
		return Aff{}, false
	}
	a, ok := sb.aenv(st).Eval(e)
	if !ok {
		return a, false
	}
	// an identifier the environment does not bind is not a known quantity
	if id, isId := e.(*ast.Ident); isId {
		obj := sb.Info.Uses[id]
		if _, bound := st.env[obj]; !bound {
			if tv, ok := sb.Info.Types[e]; !ok || tv.Value == nil {
				if sb.Sym != nil {
					if _, isSym := sb.Sym(e); isSym {
						return a, true
					}
				}
				return Aff{}, false
			}
		}
	}
	return a, true
}

func (sb *SliceBuild) sliceOf(st *sbState, e ast.Expr) *BuiltSlice {
	e = Unparen(e)
	switch x := e.(type) {
	case *ast.Ident:
		return st.slices[sb.Info.Uses[x]]
	case *ast.CompositeLit:
		if _, ok := sb.Info.TypeOf(x).Underlying().(*types.Slice); ok && len(x.Elts) == 0 {
			return &BuiltSlice{Len: AffConst(0), LenOK: true, Covered: true, Pos: x.Pos(), Note: "empty literal"}
		}
	case *ast.CallExpr:
		if id, ok := x.Fun.(*ast.Ident); ok && id.Name == "make" && len(x.Args) >= 2 {
			if _, isB := sb.Info.Uses[id].(*types.Builtin); isB {
				if _, ok := sb.Info.TypeOf(x).Underlying().(*types.Slice); ok {
					l, ok := sb.eval(st, x.Args[1])
					b := &BuiltSlice{Len: l, LenOK: ok, Pos: x.Pos(), Note: "make"}
					if ok && l.IsConst() && l.C == 0 {
						b.Covered = true
					}
					return b
				}
			}
		}
	}
	return nil
}

func (sb *SliceBuild) list(stmts []ast.Stmt, st *sbState, k func(*sbState)) {
	if len(stmts) == 0 {
		k(st)
		return
	}
	sb.stmt(stmts[0], st, func(s2 *sbState) { sb.list(stmts[1:], s2, k) })
}

// decide evaluates a condition: +1 true, -1 false, 0 unknown.
func (sb *SliceBuild) decide(st *sbState, c ast.Expr) int {
	c = Unparen(c)
	switch x := c.(type) {
	case *ast.UnaryExpr:
		if x.Op == token.NOT {
			return -sb.decide(st, x.X)
		}
	case *ast.BinaryExpr:
		switch x.Op {
		case token.LAND:
			l, r := sb.decide(st, x.X), sb.decide(st, x.Y)
			if l < 0 || r < 0 {
				return -1
			}
			if l > 0 && r > 0 {
				return 1
			}
			return 0
		case token.LOR:
			l, r := sb.decide(st, x.X), sb.decide(st, x.Y)
			if l > 0 || r > 0 {
				return 1
			}
			if l < 0 && r < 0 {
				return -1
			}
			return 0
		case token.LSS, token.LEQ, token.GTR, token.GEQ, token.EQL, token.NEQ:
			l, ok1 := sb.eval(st, x.X)
			r, ok2 := sb.eval(st, x.Y)
			if !ok1 || !ok2 {
				return 0
			}
			// d = l - r = a·P + k  → only a = ±1 handled
			d := l.Add(r, -1)
			if d.IsConst() {
				return cmpConst(d.C, x.Op)
			}
			rest := d.Add(sb.Pivot, -1)
			sign := int64(1)
			if !rest.IsConst() {
				rest = d.Add(sb.Pivot, 1)
				sign = -1
				if !rest.IsConst() {
					return 0
				}
			}
			// d = sign·P + rest.C ; P ranges over (-inf,0] or [1,+inf)
			lo, hi, hasLo, hasHi := int64(0), int64(0), false, false
			if sb.Region < 0 {
				hi, hasHi = 0, true
			} else {
				lo, hasLo = 1, true
			}
			if sign < 0 {
				lo, hi, hasLo, hasHi = -hi, -lo, hasHi, hasLo
			}
			lo, hi = lo+rest.C, hi+rest.C
			return cmpRange(lo, hi, hasLo, hasHi, x.Op)
		}
	}
	return 0
}

func cmpConst(d int64, op token.Token) int {
	t := false
	switch op {
	case token.LSS:
		t = d < 0
	case token.LEQ:
		t = d <= 0
	case token.GTR:
		t = d > 0
	case token.GEQ:
		t = d >= 0
	case token.EQL:
		t = d == 0
	case token.NEQ:
		t = d != 0
	}
	if t {
		return 1
	}
	return -1
}

// cmpRange: truth of  d OP 0  for d in [lo,hi] (open ends where !hasLo / !hasHi).
func cmpRange(lo, hi int64, hasLo, hasHi bool, op token.Token) int {
	allNeg := hasHi && hi < 0
	allNonPos := hasHi && hi <= 0
	allPos := hasLo && lo > 0
	allNonNeg := hasLo && lo >= 0
	switch op {
	case token.LSS:
		if allNeg {
			return 1
		}
		if allNonNeg {
			return -1
		}
	case token.LEQ:
		if allNonPos {
			return 1
		}
		if allPos {
			return -1
		}
	case token.GTR:
		if allPos {
			return 1
		}
		if allNonPos {
			return -1
		}
	case token.GEQ:
		if allNonNeg {
			return 1
		}
		if allNeg {
			return -1
		}
	case token.EQL:
		if allPos || allNeg {
			return -1
		}
	case token.NEQ:
		if allPos || allNeg {
			return 1
		}
	}
	return 0
}

func (sb *SliceBuild) problem(format string, a ...interface{}) {
	sb.out.Problems = append(sb.out.Problems, fmt.Sprintf(format, a...))
}

func (sb *SliceBuild) deliver(st *sbState, e ast.Expr, pos token.Pos) {
	b := sb.sliceOf(st, e)
	if b == nil {
		sb.problem("the delivered expression `%s` is not a slice this analysis tracked", ExprStr(e))
		return
	}
	r := *b
	if !r.Pos.IsValid() {
		r.Pos = pos
	}
	sb.out.Results = append(sb.out.Results, r)
}

func (sb *SliceBuild) stmt(s ast.Stmt, st *sbState, k func(*sbState)) {
	sb.steps++
	if sb.steps > 20000 {
		sb.problem("too many paths")
		return
	}
	if sb.Sink != nil {
		if e, ok := sb.Sink(s); ok {
			sb.deliver(st, e, s.Pos())
			st.delivered = true
			if _, isRet := s.(*ast.ReturnStmt); isRet {
				return
			}
			k(st)
			return
		}
	}
	switch x := s.(type) {
	case *ast.BlockStmt:
		sb.list(x.List, st, k)
	case *ast.ReturnStmt:
		sb.leave(st)
	case *ast.BranchStmt:
		// break/continue at the top level of a builder: treated as leaving
		sb.leave(st)
	case *ast.ExprStmt:
		if c, ok := x.X.(*ast.CallExpr); ok {
			if id, ok := c.Fun.(*ast.Ident); ok && id.Name == "panic" {
				sb.leave(st)
				return
			}
		}
		k(st)
	case *ast.DeclStmt:
		if gd, ok := x.Decl.(*ast.GenDecl); ok {
			for _, sp := range gd.Specs {
				if vs, ok := sp.(*ast.ValueSpec); ok {
					for i, nm := range vs.Names {
						obj := sb.Info.Defs[nm]
						if i < len(vs.Values) {
							sb.bind(st, obj, vs.Values[i])
						} else if b, ok := sb.Info.TypeOf(nm).Underlying().(*types.Basic); ok && b.Info()&types.IsInteger != 0 {
							st.env[obj] = AffConst(0)
						} else if _, ok := sb.Info.TypeOf(nm).Underlying().(*types.Slice); ok {
							st.slices[obj] = &BuiltSlice{Len: AffConst(0), LenOK: true, Covered: true, Pos: nm.Pos(), Note: "nil slice"}
						}
					}
				}
			}
		}
		k(st)
	case *ast.AssignStmt:
		sb.assign(st, x)
		k(st)
	case *ast.IncDecStmt:
		if id, ok := Unparen(x.X).(*ast.Ident); ok {
			obj := sb.Info.Uses[id]
			if a, ok := st.env[obj]; ok {
				d := int64(1)
				if x.Tok == token.DEC {
					d = -1
				}
				st.env[obj] = a.Add(AffConst(d), 1)
			}
		}
		k(st)
	case *ast.IfStmt:
		if x.Init != nil {
			sb.stmt(x.Init, st, func(s2 *sbState) { sb.ifBody(x, s2, k) })
			return
		}
		sb.ifBody(x, st, k)
	case *ast.SwitchStmt, *ast.TypeSwitchStmt:
		var body *ast.BlockStmt
		if sw, ok := x.(*ast.SwitchStmt); ok {
			body = sw.Body
		} else {
			body = x.(*ast.TypeSwitchStmt).Body
		}
		hasDefault := false
		for _, c := range body.List {
			cc := c.(*ast.CaseClause)
			if cc.List == nil {
				hasDefault = true
			}
			sb.list(cc.Body, st.clone(), k)
		}
		if !hasDefault {
			k(st.clone())
		}
	case *ast.ForStmt, *ast.RangeStmt:
		sb.loop(x, st)
		k(st)
	default:
		k(st)
	}
}

func (sb *SliceBuild) ifBody(x *ast.IfStmt, st *sbState, k func(*sbState)) {
	els := func(s *sbState) {
		if x.Else != nil {
			sb.stmt(x.Else, s, k)
		} else {
			k(s)
		}
	}
	switch sb.decide(st, x.Cond) {
	case 1:
		sb.list(x.Body.List, st, k)
	case -1:
		els(st)
	default:
		th, el := st.clone(), st.clone()
		if st.pin == nil {
			if v, ok := sb.pinned(st, x.Cond, true); ok {
				th.pin = &v
			}
			if v, ok := sb.pinned(st, x.Cond, false); ok {
				el.pin = &v
			}
		}
		sb.list(x.Body.List, th, k)
		els(el)
	}
}

func (sb *SliceBuild) bind(st *sbState, obj types.Object, rhs ast.Expr) {
	if obj == nil {
		return
	}
	delete(st.env, obj)
	delete(st.slices, obj)
	if b := sb.sliceOf(st, rhs); b != nil {
		w := *b
		st.slices[obj] = &w
		return
	}
	// s = append(s, …) outside a loop: one element
	if c, ok := Unparen(rhs).(*ast.CallExpr); ok {
		if id, ok := c.Fun.(*ast.Ident); ok && id.Name == "append" && len(c.Args) >= 1 {
			return // length no longer known here (loops handle append themselves)
		}
	}
	if a, ok := sb.eval(st, rhs); ok {
		st.env[obj] = a
	}
}

func (sb *SliceBuild) assign(st *sbState, x *ast.AssignStmt) {
	if x.Tok != token.DEFINE && x.Tok != token.ASSIGN {
		// v += c
		if len(x.Lhs) == 1 && len(x.Rhs) == 1 {
			if id, ok := Unparen(x.Lhs[0]).(*ast.Ident); ok {
				obj := sb.Info.Uses[id]
				if a, ok := st.env[obj]; ok {
					if d, ok := sb.eval(st, x.Rhs[0]); ok && (x.Tok == token.ADD_ASSIGN || x.Tok == token.SUB_ASSIGN) {
						sign := int64(1)
						if x.Tok == token.SUB_ASSIGN {
							sign = -1
						}
						st.env[obj] = a.Add(d, sign)
						return
					}
				}
				delete(st.env, obj)
			}
		}
		return
	}
	if len(x.Lhs) != len(x.Rhs) {
		for _, l := range x.Lhs {
			if id, ok := Unparen(l).(*ast.Ident); ok {
				obj := sb.Info.Defs[id]
				if obj == nil {
					obj = sb.Info.Uses[id]
				}
				delete(st.env, obj)
				delete(st.slices, obj)
			}
		}
		return
	}
	// parallel assignment: evaluate all right sides first
	type pend struct {
		obj types.Object
		rhs ast.Expr
	}
	snap := st.clone()
	for i, l := range x.Lhs {
		switch lx := Unparen(l).(type) {
		case *ast.Ident:
			if lx.Name == "_" {
				continue
			}
			obj := sb.Info.Defs[lx]
			if obj == nil {
				obj = sb.Info.Uses[lx]
			}
			tmp := &sbState{env: snap.env, slices: snap.slices, pin: snap.pin}
			// evaluate against the snapshot, store into st
			delete(st.env, obj)
			delete(st.slices, obj)
			if b := sb.sliceOf(tmp, x.Rhs[i]); b != nil {
				w := *b
				st.slices[obj] = &w
			} else if a, ok := sb.eval(tmp, x.Rhs[i]); ok {
				if c, isCall := Unparen(x.Rhs[i]).(*ast.CallExpr); isCall {
					if id, ok := c.Fun.(*ast.Ident); ok && id.Name == "append" {
						continue
					}
				}
				st.env[obj] = a
			}
		case *ast.IndexExpr:
			// s[e] = v outside a loop: not a builder idiom; the slice is no longer covered
			if b := sb.sliceOf(st, lx.X); b != nil {
				b.Note += "; stored outside a loop"
			}
		}
	}
}

// loop interprets one counted or range loop over the symbol I (the number of completed
// iterations), with induction variables x = x0 + c·I verified by one symbolic iteration.
func (sb *SliceBuild) loop(l ast.Stmt, st *sbState) {
	info := sb.Info
	var body *ast.BlockStmt
	var post ast.Stmt
	var trip Aff // number of iterations when non-negative
	tripOK := false
	I := AffSym("I")
	pre := st.clone()
	var indVars []types.Object
	switch x := l.(type) {
	case *ast.RangeStmt:
		body = x.Body
		key, _ := x.Key.(*ast.Ident)
		if x.Value != nil {
			if id, ok := x.Value.(*ast.Ident); !ok || id.Name != "_" {
				sb.problem("range loop with a value variable is not modelled")
				return
			}
		}
		if b := sb.sliceOf(st, x.X); b != nil && b.LenOK {
			trip, tripOK = b.Len, true
		} else if a, ok := sb.eval(st, x.X); ok {
			if bt, ok := info.TypeOf(x.X).Underlying().(*types.Basic); ok && bt.Info()&types.IsInteger != 0 {
				trip, tripOK = a, true
			}
		}
		if key != nil && key.Name != "_" {
			st.env[info.Defs[key]] = I
		}
	case *ast.ForStmt:
		body, post = x.Body, x.Post
		if x.Init != nil {
			if as, ok := x.Init.(*ast.AssignStmt); ok {
				sb.assign(st, as)
			}
		}
		pre = st.clone()
		// steps: the total increment of each integer variable over body (top level) and post
		steps := map[types.Object]int64{}
		bad := map[types.Object]bool{}
		scan := func(s ast.Stmt) {
			switch y := s.(type) {
			case *ast.IncDecStmt:
				if id, ok := Unparen(y.X).(*ast.Ident); ok {
					if y.Tok == token.INC {
						steps[info.Uses[id]]++
					} else {
						steps[info.Uses[id]]--
					}
				}
			case *ast.AssignStmt:
				for i, lh := range y.Lhs {
					id, ok := Unparen(lh).(*ast.Ident)
					if !ok {
						continue
					}
					obj := info.Uses[id]
					if obj == nil {
						continue
					}
					if _, tracked := st.env[obj]; !tracked {
						continue
					}
					switch {
					case (y.Tok == token.ADD_ASSIGN || y.Tok == token.SUB_ASSIGN) && len(y.Rhs) == 1:
						if v, ok := constInt(info, y.Rhs[0]); ok {
							if y.Tok == token.SUB_ASSIGN {
								v = -v
							}
							steps[obj] += v
						} else {
							bad[obj] = true
						}
					case y.Tok == token.ASSIGN && len(y.Lhs) == len(y.Rhs):
						// x = x + c
						tmp := &sbState{env: map[types.Object]Aff{obj: AffSym("§")}, slices: map[types.Object]*BuiltSlice{}}
						if a, ok := sb.eval(tmp, y.Rhs[i]); ok && a.T["§"] == 1 && len(a.T) == 1 {
							steps[obj] += a.C
						} else {
							bad[obj] = true
						}
					default:
						bad[obj] = true
					}
				}
			}
		}
		for _, s := range body.List {
			scan(s)
			// a write nested deeper than the body's top level is not a fixed step
			switch s.(type) {
			case *ast.AssignStmt, *ast.IncDecStmt, *ast.ExprStmt, *ast.DeclStmt:
			default:
				ast.Inspect(s, func(n ast.Node) bool {
					switch y := n.(type) {
					case *ast.IncDecStmt:
						if id, ok := Unparen(y.X).(*ast.Ident); ok {
							bad[info.Uses[id]] = true
						}
					case *ast.AssignStmt:
						for _, lh := range y.Lhs {
							if id, ok := Unparen(lh).(*ast.Ident); ok && info.Uses[id] != nil {
								bad[info.Uses[id]] = true
							}
						}
					}
					return true
				})
			}
		}
		if post != nil {
			scan(post)
		}
		for obj, c := range steps {
			if bad[obj] {
				delete(st.env, obj)
				continue
			}
			x0, ok := pre.env[obj]
			if !ok {
				continue
			}
			ind := x0
			for k := int64(0); k < abs64(c); k++ {
				if c > 0 {
					ind = ind.Add(I, 1)
				} else {
					ind = ind.Add(I, -1)
				}
			}
			st.env[obj] = ind
			indVars = append(indVars, obj)
		}
		for obj := range bad {
			delete(st.env, obj)
		}
		// trip count from the condition  v < N | v <= N | v != N  with v stepping by +1
		if be, ok := Unparen(x.Cond).(*ast.BinaryExpr); ok {
			if id, ok := Unparen(be.X).(*ast.Ident); ok && steps[info.Uses[id]] == 1 && !bad[info.Uses[id]] {
				if v0, ok := pre.env[info.Uses[id]]; ok {
					if n, ok := sb.eval(pre, be.Y); ok {
						switch be.Op {
						case token.LSS, token.NEQ:
							trip, tripOK = n.Add(v0, -1), true
						case token.LEQ:
							trip, tripOK = n.Add(v0, -1).Add(AffConst(1), 1), true
						}
					}
				}
			}
		}
	}
	// one symbolic iteration of the body's top level
	stored := map[*BuiltSlice]bool{}
	for _, s := range body.List {
		switch y := s.(type) {
		case *ast.AssignStmt:
			if len(y.Lhs) == 1 && len(y.Rhs) == 1 && y.Tok == token.ASSIGN {
				if ix, ok := Unparen(y.Lhs[0]).(*ast.IndexExpr); ok {
					if b := sb.sliceOf(st, ix.X); b != nil {
						idx, ok1 := sb.eval(st, ix.Index)
						v, ok2 := sb.eval(st, y.Rhs[0])
						if ok1 && ok2 && idx.Equal(I) {
							b.Elem, b.HasElem = v, true
							stored[b] = true
						} else if ok1 && ok2 && idx.T["I"] == 1 && len(idx.T) == 1 {
							// s[I+k] = v(I): element at J = I+k is v(J-k)
							b.Note += "; index offset by a constant"
						} else {
							b.Note += "; store at an index this analysis does not follow"
						}
						continue
					}
				}
				// s = append(s, v)
				if c, ok := Unparen(y.Rhs[0]).(*ast.CallExpr); ok {
					if id, ok := c.Fun.(*ast.Ident); ok && id.Name == "append" && len(c.Args) == 2 && !c.Ellipsis.IsValid() {
						if b := sb.sliceOf(st, c.Args[0]); b != nil && ExprStr(y.Lhs[0]) == ExprStr(c.Args[0]) && b.LenOK && b.Len.IsConst() && b.Len.C == 0 {
							if v, ok := sb.eval(st, c.Args[1]); ok && tripOK {
								b.Elem, b.HasElem = v, true
								b.Len = trip
								b.Covered = true
								b.Note = "append in a loop of " + trip.String() + " iterations"
								if sb.Region < 0 {
									// the loop does not run when its trip count is <= 0
									if d := trip.Add(sb.Pivot, -1); d.IsConst() && d.C <= 0 {
										b.Len = AffConst(0)
									}
								}
							} else {
								b.LenOK = false
							}
							continue
						}
					}
				}
			}
			sb.assign(st, y)
		case *ast.IncDecStmt:
			sb.stmt(y, st, func(*sbState) {})
		case *ast.DeclStmt:
			sb.stmt(y, st, func(*sbState) {})
		case *ast.IfStmt, *ast.SwitchStmt, *ast.ForStmt, *ast.RangeStmt:
			// conditional stores do not cover the slice; nested writes to tracked slices spoil them
			ast.Inspect(y, func(n ast.Node) bool {
				if as, ok := n.(*ast.AssignStmt); ok {
					for _, lh := range as.Lhs {
						if ix, ok := Unparen(lh).(*ast.IndexExpr); ok {
							if b := sb.sliceOf(st, ix.X); b != nil {
								b.HasElem = false
								b.Note += "; conditional store in the loop"
								stored[b] = false
							}
						}
					}
				}
				return true
			})
		}
	}
	if post != nil {
		switch y := post.(type) {
		case *ast.AssignStmt:
			sb.assign(st, y)
		case *ast.IncDecStmt:
			sb.stmt(y, st, func(*sbState) {})
		}
	}
	// coverage of indexed stores
	for b, ok := range stored {
		if !ok {
			continue
		}
		if tripOK && b.LenOK && trip.Equal(b.Len) {
			b.Covered = true
		} else if tripOK && b.LenOK && sb.Region < 0 {
			b.Covered = true // nothing to cover on the empty side
		}
	}
	// after the loop the loop variables hold values this analysis does not use
	if fs, ok := l.(*ast.ForStmt); ok && fs.Init != nil {
		if as, ok := fs.Init.(*ast.AssignStmt); ok && as.Tok == token.DEFINE {
			for _, lh := range as.Lhs {
				if id, ok := lh.(*ast.Ident); ok {
					delete(st.env, info.Defs[id])
				}
			}
		}
	}
	for _, obj := range indVars {
		delete(st.env, obj)
	}
}

func abs64(v int64) int64 {
	if v < 0 {
		return -v
	}
	return v
}

func constInt(info *types.Info, e ast.Expr) (int64, bool) {
	if tv, ok := info.Types[e]; ok && tv.Value != nil && tv.Value.Kind() == constant.Int {
		return constant.Int64Val(tv.Value)
	}
	return 0, false
}
