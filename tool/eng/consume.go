package eng

import (
	"fmt"
	"go/ast"
	"go/token"
	"go/types"
	"strings"

	"verif/exprlint/core"
)

// Slot consumption of dispatcher clauses (E1): which child slots are handed to the
// dispatcher's own recursion, in which order, on which paths.

type Use struct {
	Slot  string
	Mode  string // single | range | index:N | indexvar | event:<label>
	Addr  bool   // the slot's address was passed (&n.F, &n.F[i])
	Pos   token.Pos
	Arg   ast.Expr
	Event string
}

type ClausePath struct {
	Kind   string
	Uses   []Use
	Term   string
	Error  bool            // path ends by recording/returning an error (or compile-time panic)
	Exempt map[string]bool // slots known nil on this path
	Conds  []string        // rendered conditions (true/false edges, case labels)
	Path   Path
}

type ConsumeConf struct {
	// Event classifies other calls worth recording (e.g. visitor Enter/Exit); "" = ignore.
	Event func(info *types.Info, call *ast.CallExpr) string
	// IsError: a call that records an error (first-error recorder); a return of its result, or
	// a path through it followed by return, is an error path.
	IsError func(info *types.Info, call *ast.CallExpr) bool
}

// ClausePaths enumerates, for every kind, the paths through its clause (inlining same-package
// helpers that can reach the dispatcher recursion).
func ClausePaths(p *core.Program, nk *NodeKinds, d *Dispatcher, conf ConsumeConf) (map[string][]ClausePath, []string) {
	pk := p.Pkg(d.Rel)
	info := pk.TypesInfo
	self, _ := info.Defs[d.Func.Name].(*types.Func)
	var problems []string

	// functions of the package that can (transitively) reach the dispatcher recursion
	decls := map[*types.Func]*ast.FuncDecl{}
	for _, fd := range p.FuncDecls(d.Rel) {
		if f, ok := info.Defs[fd.Name].(*types.Func); ok && fd.Body != nil {
			decls[f] = fd
		}
	}
	reach := map[*types.Func]bool{self: true}
	for changed := true; changed; {
		changed = false
		for f, fd := range decls {
			if reach[f] {
				continue
			}
			ast.Inspect(fd.Body, func(n ast.Node) bool {
				if c, ok := n.(*ast.CallExpr); ok {
					if cal := CalleeOf(info, c); cal != nil && reach[cal] {
						reach[f] = true
						changed = true
						return false
					}
				}
				return true
			})
		}
	}

	out := map[string][]ClausePath{}
	for kname, cc := range d.Clauses {
		w := &Walker{Info: info, MaxDepth: 4}
		w.Inline = func(call *ast.CallExpr, depth int) (*ast.BlockStmt, *ast.FuncDecl) {
			cal := CalleeOf(info, call)
			if cal == nil || cal == self || !reach[cal] {
				return nil, nil
			}
			if conf.IsError != nil && conf.IsError(info, call) {
				return nil, nil
			}
			fd := decls[cal]
			if fd == nil {
				return nil, nil
			}
			return fd.Body, fd
		}
		paths := w.list(cc.Body, []Path{{}}, 0)
		// what follows the switch in the dispatcher belongs to every clause that falls out of
		// it (a call made once after the switch instead of at the end of each clause)
		var after []ast.Stmt
		for i, st := range d.Func.Body.List {
			inner := st
			if ls, ok := st.(*ast.LabeledStmt); ok {
				inner = ls.Stmt
			}
			if inner == ast.Stmt(d.Switch) {
				after = d.Func.Body.List[i+1:]
			}
		}
		if len(after) > 0 {
			for i := range paths {
				if paths[i].Term == "break" {
					paths[i].Term = ""
				}
			}
			paths = w.list(after, paths, 0)
		}
		if w.Overflow {
			problems = append(problems, fmt.Sprintf("%s clause %s: path enumeration overflow", core.FuncName(d.Rel, d.Func), kname))
		}
		for _, path := range paths {
			if path.Term == "" {
				path.Term = "fall"
			}
			cp := ClausePath{Kind: kname, Term: path.Term, Exempt: map[string]bool{}, Path: path}
			if path.Term == "panic" {
				cp.Error = true
			}
			env := []map[types.Object]*binding{{}}
			scanAtoms(nk, info, self, conf, path.Atoms, &cp, &env, "")
			out[kname] = append(out[kname], cp)
		}
	}
	return out, problems
}

// CalleeOf resolves the static callee of a call (function or method), nil for dynamic calls,
// conversions and builtins.
func CalleeOf(info *types.Info, call *ast.CallExpr) *types.Func {
	fun := Unparen(call.Fun)
	var id *ast.Ident
	switch f := fun.(type) {
	case *ast.Ident:
		id = f
	case *ast.SelectorExpr:
		id = f.Sel
	default:
		return nil
	}
	if fn, ok := info.Uses[id].(*types.Func); ok {
		return fn
	}
	return nil
}

// binding: what a local name stands for while scanning a path.
type binding struct {
	expr     ast.Expr // caller-side expression (parameters of inlined callees, aliases)
	copy     bool     // a local copy of a slot value (x := n.F)
	loopSlot string   // the range value variable of a loop over this list slot
}

// resolve substitutes parameters of inlined callees by the caller's argument expressions.
func resolve(info *types.Info, env []map[types.Object]*binding, e ast.Expr) (ast.Expr, *binding) {
	e = Unparen(e)
	var last *binding
	for depth := 0; depth < 8; depth++ {
		id, ok := e.(*ast.Ident)
		if !ok {
			break
		}
		obj := info.Uses[id]
		if obj == nil {
			obj = info.Defs[id]
		}
		found := false
		for i := len(env) - 1; i >= 0; i-- {
			if r, ok := env[i][obj]; ok {
				if r.copy || r.loopSlot != "" {
					last = r
				}
				if r.expr == nil {
					return e, last
				}
				e = Unparen(r.expr)
				found = true
				break
			}
		}
		if !found {
			break
		}
	}
	return e, last
}

func scanAtoms(nk *NodeKinds, info *types.Info, self *types.Func, conf ConsumeConf, atoms []Atom, cp *ClausePath, env *[]map[types.Object]*binding, loopSlot string) {
	objOf := func(id *ast.Ident) types.Object {
		if o := info.Defs[id]; o != nil {
			return o
		}
		return info.Uses[id]
	}
	for _, a := range atoms {
		switch a.Kind {
		case "enter":
			m := map[types.Object]*binding{}
			if a.Callee != nil && a.Callee.Type.Params != nil {
				i := 0
				for _, f := range a.Callee.Type.Params.List {
					for _, nm := range f.Names {
						if i < len(a.Call.Args) {
							if obj := info.Defs[nm]; obj != nil {
								e, b := resolve(info, *env, a.Call.Args[i])
								nb := &binding{expr: e}
								if b != nil {
									nb.copy, nb.loopSlot = b.copy, b.loopSlot
								}
								m[obj] = nb
							}
						}
						i++
					}
				}
			}
			*env = append(*env, m)
		case "leave":
			if len(*env) > 1 {
				*env = (*env)[:len(*env)-1]
			}
		case "assign":
			// local aliases: x := n.F  (tracked so that walk(&x) is seen as a use of a copy)
			as := a.Node.(*ast.AssignStmt)
			if len(as.Lhs) == len(as.Rhs) {
				for i, l := range as.Lhs {
					if id, ok := l.(*ast.Ident); ok {
						r, _ := resolve(info, *env, as.Rhs[i])
						if _, _, _, _, ok := nk.SlotRef(info, r); ok {
							if obj := objOf(id); obj != nil {
								(*env)[len(*env)-1][obj] = &binding{expr: r, copy: true}
							}
						}
					}
				}
			}
		case "cond":
			c := a.Node.(ast.Expr)
			cp.Conds = append(cp.Conds, fmt.Sprintf("%s=%v", ExprStr(c), a.Taken))
			// nil tests of a slot: n.F != nil (false edge) / n.F == nil (true edge)
			if be, ok := Unparen(c).(*ast.BinaryExpr); ok && (be.Op == token.NEQ || be.Op == token.EQL) {
				var other ast.Expr
				if isNilIdent(be.Y) {
					other = be.X
				} else if isNilIdent(be.X) {
					other = be.Y
				}
				if other != nil {
					r, _ := resolve(info, *env, other)
					if _, slot, indexed, _, ok := nk.SlotRef(info, r); ok && !indexed {
						if (be.Op == token.EQL) == a.Taken {
							cp.Exempt[slot] = true
						}
					}
				}
			}
		case "case":
			if a.Case != nil && a.Case.Clause != nil {
				var ls []string
				for _, e := range a.Case.Clause.List {
					ls = append(ls, ExprStr(e))
				}
				lab := strings.Join(ls, ",")
				if a.Case.Default {
					lab = "default"
				}
				cp.Conds = append(cp.Conds, ExprStr(a.Case.Tag)+"~"+lab)
			} else if a.Case != nil && a.Case.Implicit {
				cp.Conds = append(cp.Conds, ExprStr(a.Case.Tag)+"~<none>")
			}
		case "call":
			call := a.Call
			if conf.IsError != nil && conf.IsError(info, call) {
				// an error is recorded on this path: the remaining children need not be visited
				cp.Uses = append(cp.Uses, Use{Mode: "event:error", Event: "error", Pos: call.Pos()})
				cp.Error = true
				continue
			}
			if cal := CalleeOf(info, call); cal != nil && cal == self {
				if len(call.Args) == 0 {
					continue
				}
				raw := Unparen(call.Args[0])
				u := Use{Pos: call.Pos(), Arg: call.Args[0]}
				addr := false
				if pe, ok := raw.(*ast.UnaryExpr); ok && pe.Op == token.AND {
					addr = true
					raw = Unparen(pe.X)
				}
				arg, b := resolve(info, *env, raw)
				if b != nil && b.loopSlot != "" {
					// the range value variable: a copy of the element
					u.Slot, u.Mode, u.Addr = b.loopSlot, "range", false
					cp.Uses = append(cp.Uses, u)
					continue
				}
				if _, slot, indexed, addr2, ok := nk.SlotRef(info, arg); ok {
					u.Slot = slot
					u.Addr = (addr || addr2) && (b == nil || !b.copy)
					switch {
					case !indexed:
						u.Mode = "single"
					default:
						ix := Unparen(arg)
						if ue, ok := ix.(*ast.UnaryExpr); ok {
							ix = Unparen(ue.X)
						}
						idx := ix.(*ast.IndexExpr).Index
						if tv, ok := info.Types[idx]; ok && tv.Value != nil {
							u.Mode = "index:" + tv.Value.ExactString()
						} else if loopSlot == slot {
							u.Mode = "range"
						} else {
							u.Mode = "indexvar"
						}
					}
					cp.Uses = append(cp.Uses, u)
				} else {
					cp.Uses = append(cp.Uses, Use{Slot: "?", Mode: "unknown:" + ExprStr(call.Args[0]), Pos: call.Pos()})
				}
				continue
			}
			if conf.Event != nil {
				if ev := conf.Event(info, call); ev != "" {
					cp.Uses = append(cp.Uses, Use{Mode: "event:" + ev, Event: ev, Pos: call.Pos(), Arg: firstArg(call)})
				}
			}
		case "loop":
			// for … range n.F  /  for i := range n.F  /  for i := 0; i < len(n.F); i++
			slot := ""
			m := map[types.Object]*binding{}
			switch l := a.Loop.(type) {
			case *ast.RangeStmt:
				x, _ := resolve(info, *env, l.X)
				if _, s, indexed, _, ok := nk.SlotRef(info, x); ok && !indexed {
					slot = s
					if v, ok := l.Value.(*ast.Ident); ok && v.Name != "_" {
						if obj := objOf(v); obj != nil {
							m[obj] = &binding{loopSlot: s}
						}
					}
				}
			case *ast.ForStmt:
				if l.Cond != nil {
					ast.Inspect(l.Cond, func(n ast.Node) bool {
						if c, ok := n.(*ast.CallExpr); ok {
							if id, ok := c.Fun.(*ast.Ident); ok && id.Name == "len" && len(c.Args) == 1 {
								r, _ := resolve(info, *env, c.Args[0])
								if _, s, indexed, _, ok := nk.SlotRef(info, r); ok && !indexed {
									slot = s
								}
							}
						}
						return true
					})
				}
			}
			var first []Use
			haveFirst := false
			agree := true
			for _, bp := range a.Body {
				sub := ClausePath{Exempt: map[string]bool{}}
				*env = append(*env, m)
				scanAtoms(nk, info, self, conf, bp.Atoms, &sub, env, slot)
				*env = (*env)[:len(*env)-1]
				if sub.Error || bp.Term == "panic" {
					continue // error exits inside the loop do not constrain the normal flow
				}
				if !haveFirst {
					first, haveFirst = sub.Uses, true
				} else if !sameUses(first, sub.Uses) {
					agree = false
				}
			}
			if !agree {
				cp.Uses = append(cp.Uses, Use{Slot: "?", Mode: "unknown:loop body paths disagree", Pos: a.Node.Pos()})
			}
			for _, u := range first {
				if slot == "" && u.Slot != "" && !strings.HasPrefix(u.Mode, "event:") {
					u.Mode = "unknown:consumed inside a loop that does not range over the slot"
				}
				if slot != "" && u.Slot == slot && u.Mode == "indexvar" {
					u.Mode = "range"
				}
				cp.Uses = append(cp.Uses, u)
			}
		}
	}
}

func firstArg(c *ast.CallExpr) ast.Expr {
	if len(c.Args) > 0 {
		return c.Args[0]
	}
	return nil
}

func isNilIdent(e ast.Expr) bool {
	id, ok := Unparen(e).(*ast.Ident)
	return ok && id.Name == "nil"
}

func sameUses(a, b []Use) bool {
	if len(a) != len(b) {
		return false
	}
	for i := range a {
		if a[i].Slot != b[i].Slot || a[i].Mode != b[i].Mode {
			return false
		}
	}
	return true
}
