package eng

import (
	"fmt"
	"go/ast"
	"go/token"
	"go/types"
	"sort"
	"strings"

	"verif/exprlint/core"
)

// E6 — rewrite sites: calls of ast.Patch (directly or through a local closure that forwards
// its parameter to ast.Patch) in the optimizer passes and the operator patcher.

type Operand struct {
	Path string   // normalised origin, e.g. "*node.Right.Left"
	Expr ast.Expr // as written in the replacement
	Slot string   // slot of the replacement literal it is stored in, e.g. "Left" / "Arguments[0]"
	In   string   // kind of the literal that holds it
}

type RewriteSite struct {
	Rel      string
	Func     *ast.FuncDecl
	Call     *ast.CallExpr
	Via      string   // "Patch" or the wrapper closure's name
	Target   ast.Expr // first argument of ast.Patch as seen at the site (node)
	Repl     ast.Expr // the replacement expression, resolved through local single-definition variables
	ReplKind string   // kind of the outermost literal ("" if not a literal)
	Context  []string // enclosing case labels / type-switch kinds, outermost first
	Key      string
	Operands []Operand
	Fresh    []*ast.CompositeLit // every fresh node literal inside the replacement (outermost first)
	Aliases  *Aliases
	Stack    []ast.Node // enclosing nodes of the call, outermost first
}

// Aliases maps local variables to the expression they were (uniquely) defined from.
type Aliases struct {
	info *types.Info
	def  map[types.Object]ast.Expr
	n    map[types.Object]int
	// DeclOf finds the declaration of a function of the same package (builder helpers);
	// optional
	DeclOf func(*types.Func) *ast.FuncDecl
	inst   map[*ast.CallExpr]*ast.CompositeLit
}

// instantiate reads a call of a builder — a local closure or a function of the same package
// whose only return statement returns a fresh composite literal (possibly named first) — as
// that literal with the parameters replaced by the arguments of the call. The copy carries
// the type information of the original, so it is read like a literal written at the call.
func (al *Aliases) instantiate(call *ast.CallExpr) *ast.CompositeLit {
	if lit, ok := al.inst[call]; ok {
		return lit
	}
	if al.inst == nil {
		al.inst = map[*ast.CallExpr]*ast.CompositeLit{}
	}
	al.inst[call] = nil
	var ftype *ast.FuncType
	var body *ast.BlockStmt
	var helper *ast.FuncDecl
	inner := al
	switch f := Unparen(call.Fun).(type) {
	case *ast.Ident:
		if d := al.Def(f); d != nil {
			if fl, ok := Unparen(d).(*ast.FuncLit); ok {
				ftype, body = fl.Type, fl.Body
			}
		} else if fn, ok := al.info.Uses[f].(*types.Func); ok && al.DeclOf != nil {
			if fd := al.DeclOf(fn); fd != nil && fd.Body != nil && fd.Recv == nil {
				ftype, body, helper = fd.Type, fd.Body, fd
				inner = BuildAliases(al.info, fd.Body)
				inner.DeclOf = al.DeclOf
			}
		}
	}
	if body == nil || call.Ellipsis.IsValid() {
		return nil
	}
	var rets []*ast.ReturnStmt
	ast.Inspect(body, func(n ast.Node) bool {
		switch x := n.(type) {
		case *ast.FuncLit:
			return false
		case *ast.ReturnStmt:
			rets = append(rets, x)
		}
		return true
	})
	if len(rets) != 1 || len(rets[0].Results) != 1 {
		return nil
	}
	lit := inner.Literal(rets[0].Results[0])
	if lit == nil {
		return nil
	}
	sub := map[types.Object]ast.Expr{}
	i := 0
	for _, f := range ftype.Params.List {
		for _, nm := range f.Names {
			if i >= len(call.Args) {
				return nil
			}
			if obj := al.info.Defs[nm]; obj != nil {
				if inner.n[obj] > 0 {
					return nil // the builder overwrites a parameter
				}
				sub[obj] = call.Args[i]
			}
			i++
		}
	}
	if i != len(call.Args) {
		return nil
	}
	out, _ := SubstCopy(al.info, lit, sub).(*ast.CompositeLit)
	al.inst[call] = out
	if out != nil {
		InstantiatedIn[out] = helper
	}
	return out
}

// SubstOrigin maps every node copied by SubstCopy to the node it was copied from;
// InstantiatedIn maps an instantiated builder literal to the declaration of the builder
// (nil for a local closure).
var (
	SubstOrigin    = map[ast.Node]ast.Node{}
	InstantiatedIn = map[*ast.CompositeLit]*ast.FuncDecl{}
)

// SubstCopy copies an expression, replacing uses of the given objects by the mapped
// expressions; copied nodes get the type information of their originals.
func SubstCopy(info *types.Info, e ast.Expr, sub map[types.Object]ast.Expr) ast.Expr {
	var cp func(e ast.Expr) ast.Expr
	keep := func(old, nw ast.Expr) ast.Expr {
		if tv, ok := info.Types[old]; ok {
			info.Types[nw] = tv
		}
		SubstOrigin[nw] = old
		return nw
	}
	cp = func(e ast.Expr) ast.Expr {
		switch x := e.(type) {
		case nil:
			return nil
		case *ast.Ident:
			if r, ok := sub[info.Uses[x]]; ok && info.Uses[x] != nil {
				return r
			}
			return x
		case *ast.ParenExpr:
			return keep(x, &ast.ParenExpr{Lparen: x.Lparen, X: cp(x.X), Rparen: x.Rparen})
		case *ast.UnaryExpr:
			return keep(x, &ast.UnaryExpr{OpPos: x.OpPos, Op: x.Op, X: cp(x.X)})
		case *ast.StarExpr:
			return keep(x, &ast.StarExpr{Star: x.Star, X: cp(x.X)})
		case *ast.BinaryExpr:
			return keep(x, &ast.BinaryExpr{X: cp(x.X), OpPos: x.OpPos, Op: x.Op, Y: cp(x.Y)})
		case *ast.SelectorExpr:
			n := &ast.SelectorExpr{X: cp(x.X), Sel: x.Sel}
			if s, ok := info.Selections[x]; ok {
				info.Selections[n] = s
			}
			return keep(x, n)
		case *ast.TypeAssertExpr:
			return keep(x, &ast.TypeAssertExpr{X: cp(x.X), Lparen: x.Lparen, Type: x.Type, Rparen: x.Rparen})
		case *ast.IndexExpr:
			return keep(x, &ast.IndexExpr{X: cp(x.X), Lbrack: x.Lbrack, Index: cp(x.Index), Rbrack: x.Rbrack})
		case *ast.CallExpr:
			n := &ast.CallExpr{Fun: cp(x.Fun), Lparen: x.Lparen, Ellipsis: x.Ellipsis, Rparen: x.Rparen}
			for _, a := range x.Args {
				n.Args = append(n.Args, cp(a))
			}
			return keep(x, n)
		case *ast.KeyValueExpr:
			return &ast.KeyValueExpr{Key: x.Key, Colon: x.Colon, Value: cp(x.Value)}
		case *ast.CompositeLit:
			n := &ast.CompositeLit{Type: x.Type, Lbrace: x.Lbrace, Rbrace: x.Rbrace, Incomplete: x.Incomplete}
			for _, el := range x.Elts {
				n.Elts = append(n.Elts, cp(el))
			}
			return keep(x, n)
		}
		return e
	}
	return cp(e)
}

func BuildAliases(info *types.Info, body *ast.BlockStmt) *Aliases {
	al := &Aliases{info: info, def: map[types.Object]ast.Expr{}, n: map[types.Object]int{}}
	ast.Inspect(body, func(n ast.Node) bool {
		switch s := n.(type) {
		case *ast.AssignStmt:
			if len(s.Rhs) == 1 && len(s.Lhs) >= 1 {
				// x := E ; x, ok := E.(*T) ; x, ok := m[k]
				if id, ok := s.Lhs[0].(*ast.Ident); ok && id.Name != "_" {
					obj := info.Defs[id]
					if obj == nil {
						obj = info.Uses[id]
					}
					if obj != nil {
						al.n[obj]++
						al.def[obj] = s.Rhs[0]
					}
				}
				for _, l := range s.Lhs[1:] {
					if id, ok := l.(*ast.Ident); ok {
						if obj := info.Defs[id]; obj != nil {
							al.n[obj] += 2 // not an alias
						} else if obj := info.Uses[id]; obj != nil {
							al.n[obj] += 2
						}
					}
				}
			} else if len(s.Rhs) == len(s.Lhs) {
				for i, l := range s.Lhs {
					if id, ok := l.(*ast.Ident); ok && id.Name != "_" {
						obj := info.Defs[id]
						if obj == nil {
							obj = info.Uses[id]
						}
						if obj != nil {
							al.n[obj]++
							al.def[obj] = s.Rhs[i]
						}
					}
				}
			}
		case *ast.TypeSwitchStmt:
			if as, ok := s.Assign.(*ast.AssignStmt); ok {
				x := as.Rhs[0].(*ast.TypeAssertExpr).X
				for _, c := range s.Body.List {
					if obj := info.Implicits[c]; obj != nil {
						al.n[obj]++
						al.def[obj] = x
					}
				}
			}
		case *ast.RangeStmt:
			for _, e := range []ast.Expr{s.Key, s.Value} {
				if id, ok := e.(*ast.Ident); ok {
					if obj := info.Defs[id]; obj != nil {
						al.n[obj] += 2
					}
				}
			}
		case *ast.IncDecStmt:
			if id, ok := s.X.(*ast.Ident); ok {
				if obj := info.Uses[id]; obj != nil {
					al.n[obj] += 2
				}
			}
		}
		return true
	})
	return al
}

// Def returns the unique defining expression of an identifier, if any.
func (al *Aliases) Def(id *ast.Ident) ast.Expr {
	obj := al.info.Uses[id]
	if obj == nil {
		obj = al.info.Defs[id]
	}
	if obj == nil || al.n[obj] != 1 {
		return nil
	}
	return al.def[obj]
}

// Norm renders the origin path of a node-valued expression.
func (al *Aliases) Norm(e ast.Expr) string { return al.norm(e, 0) }

func (al *Aliases) norm(e ast.Expr, depth int) string {
	if depth > 12 {
		return "…"
	}
	switch e := Unparen(e).(type) {
	case *ast.Ident:
		if d := al.Def(e); d != nil {
			switch Unparen(d).(type) {
			case *ast.CompositeLit, *ast.CallExpr, *ast.BasicLit, *ast.FuncLit:
				return e.Name
			case *ast.UnaryExpr:
				if u := Unparen(d).(*ast.UnaryExpr); u.Op == token.AND {
					if _, ok := Unparen(u.X).(*ast.CompositeLit); ok {
						return e.Name
					}
				}
			}
			return al.norm(d, depth+1)
		}
		return e.Name
	case *ast.StarExpr:
		return "*" + al.norm(e.X, depth+1)
	case *ast.SelectorExpr:
		return al.norm(e.X, depth+1) + "." + e.Sel.Name
	case *ast.TypeAssertExpr:
		return al.norm(e.X, depth+1)
	case *ast.IndexExpr:
		return al.norm(e.X, depth+1) + "[" + ExprStr(e.Index) + "]"
	case *ast.UnaryExpr:
		return e.Op.String() + al.norm(e.X, depth+1)
	}
	return ExprStr(e)
}

// Literal resolves e to a fresh composite literal (&K{…}, K{…} or a variable uniquely defined
// as one); nil otherwise.
func (al *Aliases) Literal(e ast.Expr) *ast.CompositeLit {
	for i := 0; i < 6; i++ {
		e = Unparen(e)
		switch x := e.(type) {
		case *ast.UnaryExpr:
			if x.Op == token.AND {
				e = x.X
				continue
			}
			return nil
		case *ast.CompositeLit:
			return x
		case *ast.Ident:
			d := al.Def(x)
			if d == nil {
				return nil
			}
			e = d
			continue
		case *ast.CallExpr:
			return al.instantiate(x)
		default:
			return nil
		}
	}
	return nil
}

// FindRewriteSites enumerates the rewrite sites of a package.
func FindRewriteSites(p *core.Program, nk *NodeKinds, rel string) []*RewriteSite {
	pk := p.Pkg(rel)
	info := pk.TypesInfo
	patchObj := p.Pkg("ast").Types.Scope().Lookup("Patch")
	var sites []*RewriteSite
	for _, fd := range p.FuncDecls(rel) {
		if fd.Body == nil {
			continue
		}
		al := BuildAliases(info, fd.Body)
		al.DeclOf = func(fn *types.Func) *ast.FuncDecl {
			if fn.Pkg() != pk.Types {
				return nil
			}
			_, d := p.DeclOf(fn)
			return d
		}
		// wrapper closures: name -> index of the forwarded parameter
		wrappers := map[types.Object]int{}
		isPatch := func(call *ast.CallExpr) bool {
			fn := CalleeOf(info, call)
			return fn != nil && types.Object(fn) == patchObj
		}
		for changed := true; changed; {
			changed = false
			ast.Inspect(fd.Body, func(n ast.Node) bool {
				as, ok := n.(*ast.AssignStmt)
				if !ok || len(as.Lhs) != 1 || len(as.Rhs) != 1 {
					return true
				}
				id, ok := as.Lhs[0].(*ast.Ident)
				fl, ok2 := as.Rhs[0].(*ast.FuncLit)
				if !ok || !ok2 {
					return true
				}
				obj := info.Defs[id]
				if obj == nil {
					return true
				}
				if _, done := wrappers[obj]; done {
					return true
				}
				var params []types.Object
				for _, f := range fl.Type.Params.List {
					for _, nm := range f.Names {
						params = append(params, info.Defs[nm])
					}
				}
				ast.Inspect(fl.Body, func(m ast.Node) bool {
					c, ok := m.(*ast.CallExpr)
					if !ok {
						return true
					}
					var fwd ast.Expr
					if isPatch(c) && len(c.Args) == 2 {
						fwd = c.Args[1]
					} else if cid, ok := c.Fun.(*ast.Ident); ok {
						if wi, isW := wrappers[info.Uses[cid]]; isW && wi < len(c.Args) {
							fwd = c.Args[wi]
						}
					}
					if fid, ok := fwd.(*ast.Ident); ok {
						for i, po := range params {
							if info.Uses[fid] == po {
								wrappers[obj] = i
								changed = true
							}
						}
					}
					return true
				})
				return true
			})
		}
		// sites, with the stack of enclosing nodes
		var stack []ast.Node
		inWrapper := 0
		ast.Inspect(fd.Body, func(n ast.Node) bool {
			if n == nil {
				top := stack[len(stack)-1]
				if fl, ok := top.(*ast.FuncLit); ok && isWrapperLit(info, fd, fl, wrappers) {
					inWrapper--
				}
				stack = stack[:len(stack)-1]
				return true
			}
			stack = append(stack, n)
			if fl, ok := n.(*ast.FuncLit); ok && isWrapperLit(info, fd, fl, wrappers) {
				inWrapper++
			}
			call, ok := n.(*ast.CallExpr)
			if !ok || inWrapper > 0 {
				return true
			}
			var repl, target ast.Expr
			via := ""
			if isPatch(call) && len(call.Args) == 2 {
				repl, target, via = call.Args[1], call.Args[0], "Patch"
			} else if cid, ok := call.Fun.(*ast.Ident); ok {
				if wi, isW := wrappers[info.Uses[cid]]; isW && wi < len(call.Args) {
					repl, via = call.Args[wi], cid.Name
				}
			}
			if repl == nil {
				return true
			}
			s := &RewriteSite{Rel: rel, Func: fd, Call: call, Via: via, Target: target, Repl: repl, Aliases: al}
			s.Stack = append([]ast.Node{}, stack...)
			for _, en := range stack {
				if cc, ok := en.(*ast.CaseClause); ok {
					var ls []string
					for _, e := range cc.List {
						if k := nk.KindOfType(info.TypeOf(e)); k != nil {
							ls = append(ls, "*"+k.Name)
						} else {
							ls = append(ls, ExprStr(e))
						}
					}
					if len(ls) > 0 {
						s.Context = append(s.Context, strings.Join(ls, ","))
					}
				}
			}
			if len(s.Context) == 0 || !strings.HasPrefix(s.Context[0], "*") {
				// no type switch over the matched node: a successful comma-ok assertion of it
				// that dominates the site (`n, ok := (*node).(*K); if !ok { return }`, or as the
				// init of an enclosing if) says the same
				if k := assertedKind(info, nk, fd, al, stack, call); k != "" {
					s.Context = append([]string{"*" + k}, s.Context...)
				}
			}
			if lit := al.Literal(repl); lit != nil {
				if k := nk.KindOfType(info.TypeOf(lit)); k != nil {
					s.ReplKind = k.Name
				}
				s.collect(nk, info, lit)
			} else {
				s.Operands = append(s.Operands, Operand{Path: al.Norm(repl), Expr: repl, Slot: "<whole>"})
			}
			sites = append(sites, s)
			return true
		})
	}
	sort.SliceStable(sites, func(i, j int) bool { return sites[i].Call.Pos() < sites[j].Call.Pos() })
	// keys: func/context/→kind, numbered on collision
	count := map[string]int{}
	for _, s := range sites {
		base := core.FuncName(rel, s.Func) + "/" + strings.Join(s.Context, "/") + "/→" + s.ReplKind
		count[base]++
		s.Key = base
	}
	seen := map[string]int{}
	for _, s := range sites {
		if count[s.Key] > 1 {
			seen[s.Key]++
			s.Key = fmt.Sprintf("%s#%d", s.Key, seen[s.Key])
		}
	}
	return sites
}

// assertedKind: the node kind K of a comma-ok assertion `x, ok := (*node).(*K)` whose success
// dominates the call: the assertion is the init of an enclosing if whose condition requires ok,
// or it stands in an enclosing statement list and the next statement leaves when !ok.
func assertedKind(info *types.Info, nk *NodeKinds, fd *ast.FuncDecl, al *Aliases, stack []ast.Node, call *ast.CallExpr) string {
	kindOf := func(as *ast.AssignStmt) (string, types.Object) {
		if as == nil || len(as.Lhs) != 2 || len(as.Rhs) != 1 {
			return "", nil
		}
		ta, ok := Unparen(as.Rhs[0]).(*ast.TypeAssertExpr)
		if !ok || ta.Type == nil || al.Norm(ta.X) != "*node" {
			return "", nil
		}
		k := nk.KindOfType(info.TypeOf(ta.Type))
		okID, isID := as.Lhs[1].(*ast.Ident)
		if k == nil || !isID {
			return "", nil
		}
		obj := info.Defs[okID]
		if obj == nil {
			obj = info.Uses[okID]
		}
		return k.Name, obj
	}
	isOK := func(e ast.Expr, obj types.Object) bool {
		id, ok := Unparen(e).(*ast.Ident)
		return ok && info.Uses[id] == obj
	}
	for i := len(stack) - 1; i >= 0; i-- {
		switch x := stack[i].(type) {
		case *ast.IfStmt:
			if as, ok := x.Init.(*ast.AssignStmt); ok && i+1 < len(stack) && stack[i+1] == ast.Node(x.Body) {
				if k, obj := kindOf(as); k != "" {
					for _, c := range Conjuncts(x.Cond, false) {
						if isOK(c, obj) {
							return k
						}
					}
				}
			}
		case *ast.BlockStmt, *ast.CaseClause:
			var list []ast.Stmt
			if b, ok := x.(*ast.BlockStmt); ok {
				list = b.List
			} else {
				list = x.(*ast.CaseClause).Body
			}
			for j, st := range list {
				if st.End() > call.Pos() {
					break
				}
				as, ok := st.(*ast.AssignStmt)
				if !ok || j+1 >= len(list) {
					continue
				}
				k, obj := kindOf(as)
				if k == "" {
					continue
				}
				if g, ok := list[j+1].(*ast.IfStmt); ok && g.Else == nil && g.Init == nil && stmtsLeave(g.Body.List) && g.End() <= call.Pos() {
					for _, d := range Disjuncts(g.Cond, false) {
						if u, ok := d.(*ast.UnaryExpr); ok && u.Op == token.NOT && isOK(u.X, obj) {
							return k
						}
					}
				}
			}
		}
	}
	return ""
}

func isWrapperLit(info *types.Info, fd *ast.FuncDecl, fl *ast.FuncLit, wrappers map[types.Object]int) bool {
	found := false
	ast.Inspect(fd.Body, func(n ast.Node) bool {
		if as, ok := n.(*ast.AssignStmt); ok && len(as.Rhs) == 1 && as.Rhs[0] == ast.Expr(fl) {
			if id, ok := as.Lhs[0].(*ast.Ident); ok {
				if _, w := wrappers[info.Defs[id]]; w {
					found = true
				}
			}
		}
		return !found
	})
	return found
}

// collect walks a fresh node literal and records reused operands and nested fresh literals.
func (s *RewriteSite) collect(nk *NodeKinds, info *types.Info, lit *ast.CompositeLit) {
	s.Fresh = append(s.Fresh, lit)
	k := nk.KindOfType(info.TypeOf(lit))
	kname := "?"
	if k != nil {
		kname = k.Name
	}
	for _, el := range lit.Elts {
		kv, ok := el.(*ast.KeyValueExpr)
		if !ok {
			continue
		}
		fname := ExprStr(kv.Key)
		vt := info.TypeOf(kv.Value)
		switch {
		case nk.IsNode(vt) || nk.KindOfType(vt) != nil:
			s.operandOrLit(nk, info, kv.Value, fname, kname)
		case nk.IsNodeList(vt):
			if cl, ok := Unparen(kv.Value).(*ast.CompositeLit); ok {
				for i, e := range cl.Elts {
					s.operandOrLit(nk, info, e, fmt.Sprintf("%s[%d]", fname, i), kname)
				}
			} else {
				s.Operands = append(s.Operands, Operand{Path: s.Aliases.Norm(kv.Value), Expr: kv.Value, Slot: fname, In: kname})
			}
		}
	}
}

func (s *RewriteSite) operandOrLit(nk *NodeKinds, info *types.Info, e ast.Expr, slot, in string) {
	if lit := s.Aliases.Literal(e); lit != nil && nk.KindOfType(info.TypeOf(lit)) != nil {
		s.collect(nk, info, lit)
		return
	}
	s.Operands = append(s.Operands, Operand{Path: s.Aliases.Norm(e), Expr: e, Slot: slot, In: in})
}
