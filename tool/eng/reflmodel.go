package eng

import (
	"fmt"
	"go/ast"
	"go/constant"
	"go/token"
	"go/types"
	"strings"

	"verif/exprlint/core"
)

// E8 — finite abstract evaluation of reflect.Type-valued code.
//
// The type checker's predicates (isInteger, isFuncType, dereference, kind, …) and the
// conditions under which the compiler and the checker select specialised instructions are small
// pure computations over reflect.Type values. Their meaning for EVERY type is determined by
// their value on a finite set of type SHAPES (model types below): they only ever ask for the
// kind, nil-ness, named-ness, method count, element / key / parameter / result types and
// variadic-ness. This evaluator interprets such code over model types — no repository code is
// executed; an expression it does not understand evaluates to "unknown", and the clients treat
// unknown as "cannot exclude".

// MT is a model type (nil pointer = the nil reflect.Type).
type MT struct {
	Kind      string // reflect.Kind name: "Int", "Ptr", "Func", …
	Named     bool   // has a package path (a defined type outside the universe)
	NumMethod int
	Elem      *MT
	Key       *MT
	In, Out   []*MT
	Variadic  bool
	Label     string // for reports
}

func (t *MT) String() string {
	if t == nil {
		return "nil"
	}
	if t.Label != "" {
		return t.Label
	}
	s := ""
	if t.Named {
		s = "named "
	}
	switch t.Kind {
	case "Ptr":
		return s + "*" + t.Elem.String()
	case "Slice":
		return s + "[]" + t.Elem.String()
	case "Array":
		return s + "[n]" + t.Elem.String()
	case "Map":
		return s + "map[" + t.Key.String() + "]" + t.Elem.String()
	case "Interface":
		if t.NumMethod == 0 {
			return s + "interface{}"
		}
		return s + "interface{…}"
	case "Func":
		var in, out []string
		for i, p := range t.In {
			if t.Variadic && i == len(t.In)-1 && p != nil && p.Elem != nil {
				in = append(in, "..."+p.Elem.String())
			} else {
				in = append(in, p.String())
			}
		}
		for _, p := range t.Out {
			out = append(out, p.String())
		}
		return s + "func(" + strings.Join(in, ", ") + ") (" + strings.Join(out, ", ") + ")"
	}
	return s + strings.ToLower(t.Kind)
}

// Same: structural identity of model types (what Go's type identity reduces to on shapes).
func (t *MT) Same(u *MT) bool {
	if t == nil || u == nil {
		return t == u
	}
	if t.Kind != u.Kind || t.Named != u.Named || t.NumMethod != u.NumMethod || t.Variadic != u.Variadic || len(t.In) != len(u.In) || len(t.Out) != len(u.Out) {
		return false
	}
	if (t.Elem == nil) != (u.Elem == nil) || (t.Key == nil) != (u.Key == nil) {
		return false
	}
	if t.Elem != nil && !t.Elem.Same(u.Elem) {
		return false
	}
	if t.Key != nil && !t.Key.Same(u.Key) {
		return false
	}
	for i := range t.In {
		if !t.In[i].Same(u.In[i]) {
			return false
		}
	}
	for i := range t.Out {
		if !t.Out[i].Same(u.Out[i]) {
			return false
		}
	}
	return true
}

// RV is a value of the evaluator.
type RV struct {
	K   string // type bool int kind str tuple unknown panic
	T   *MT
	B   bool
	I   int64
	S   string
	Tup []RV
	Fn  *ast.FuncLit // K == "func": a local closure
}

var rvUnknown = RV{K: "unknown"}

func rvBool(b bool) RV   { return RV{K: "bool", B: b} }
func rvType(t *MT) RV    { return RV{K: "type", T: t} }
func rvInt(i int64) RV   { return RV{K: "int", I: i} }
func rvKind(k string) RV { return RV{K: "kind", S: k} }

func (v RV) String() string {
	switch v.K {
	case "type":
		return v.T.String()
	case "bool":
		return fmt.Sprint(v.B)
	case "int":
		return fmt.Sprint(v.I)
	case "kind":
		return "reflect." + v.S
	case "str":
		return fmt.Sprintf("%q", v.S)
	case "tuple":
		var s []string
		for _, x := range v.Tup {
			s = append(s, x.String())
		}
		return "(" + strings.Join(s, ", ") + ")"
	}
	return v.K
}

// Interp interprets expressions and small function bodies over model types.
type Interp struct {
	P    *core.Program
	Rel  string
	Info *types.Info
	// Hook is consulted first for every expression (binds `node.Left.Type()` to a shape, …).
	Hook func(e ast.Expr) (RV, bool)
	// NodeType gives the static type of an AST-node value (RV{K: "node", S: path}).
	NodeType func(path string) (*MT, bool)
	Env      map[types.Object]RV
	depth    int
}

func NewInterp(p *core.Program, rel string) *Interp {
	return &Interp{P: p, Rel: rel, Info: p.Pkg(rel).TypesInfo, Env: map[types.Object]RV{}}
}

func (in *Interp) obj(id *ast.Ident) types.Object {
	if o := in.Info.Defs[id]; o != nil {
		return o
	}
	return in.Info.Uses[id]
}

// well-known model types
var (
	MTEmptyIface = &MT{Kind: "Interface"}
	MTInt        = &MT{Kind: "Int"}
	MTString     = &MT{Kind: "String"}
	MTBool       = &MT{Kind: "Bool"}
	MTFloat64    = &MT{Kind: "Float64"}
)

func basicMT(b *types.Basic) *MT {
	switch b.Kind() {
	case types.UntypedNil:
		return nil
	case types.UntypedInt:
		return MTInt
	case types.UntypedFloat:
		return MTFloat64
	case types.UntypedString:
		return MTString
	case types.UntypedBool:
		return MTBool
	}
	n := b.Name()
	return &MT{Kind: strings.ToUpper(n[:1]) + n[1:]}
}

// goTypeMT: the model of a go/types type (used for reflect.TypeOf(<literal>) initialisers).
func goTypeMT(t types.Type) (*MT, bool) {
	switch x := t.(type) {
	case *types.Basic:
		return basicMT(x), true
	case *types.Slice:
		e, ok := goTypeMT(x.Elem())
		return &MT{Kind: "Slice", Elem: e}, ok
	case *types.Map:
		k, ok1 := goTypeMT(x.Key())
		e, ok2 := goTypeMT(x.Elem())
		return &MT{Kind: "Map", Key: k, Elem: e}, ok1 && ok2
	case *types.Pointer:
		e, ok := goTypeMT(x.Elem())
		return &MT{Kind: "Ptr", Elem: e}, ok
	case *types.Interface:
		return &MT{Kind: "Interface", NumMethod: x.NumMethods()}, true
	}
	return nil, false
}

// globalType: a package-level variable initialised from reflect.TypeOf(...)[.Elem()].
func (in *Interp) globalType(v *types.Var) (RV, bool) {
	rel, lib := in.P.RelOf(v.Pkg())
	if !lib {
		return rvUnknown, false
	}
	pk := in.P.Pkg(rel)
	for _, f := range pk.Syntax {
		for _, d := range f.Decls {
			gd, ok := d.(*ast.GenDecl)
			if !ok {
				continue
			}
			for _, sp := range gd.Specs {
				vs, ok := sp.(*ast.ValueSpec)
				if !ok {
					continue
				}
				for i, nm := range vs.Names {
					if pk.TypesInfo.Defs[nm] != types.Object(v) || i >= len(vs.Values) {
						continue
					}
					sub := &Interp{P: in.P, Rel: rel, Info: pk.TypesInfo, Env: map[types.Object]RV{}, depth: in.depth + 1}
					r := sub.Eval(vs.Values[i])
					return r, r.K == "type"
				}
			}
		}
	}
	return rvUnknown, false
}

func (in *Interp) Eval(e ast.Expr) RV {
	e = Unparen(e)
	if in.Hook != nil {
		if v, ok := in.Hook(e); ok {
			return v
		}
	}
	if tv, ok := in.Info.Types[e]; ok && tv.Value != nil {
		switch tv.Value.Kind() {
		case constant.Bool:
			return rvBool(constant.BoolVal(tv.Value))
		case constant.Int:
			if i, ok := constant.Int64Val(tv.Value); ok {
				// reflect.Kind constants are typed ints: keep them as kinds
				if n, ok := tv.Type.(*types.Named); ok && n.Obj().Pkg() != nil && n.Obj().Pkg().Path() == "reflect" && n.Obj().Name() == "Kind" {
					if k := kindName(in.Info, e); k != "" {
						return rvKind(k)
					}
				}
				return rvInt(i)
			}
		case constant.String:
			return RV{K: "str", S: constant.StringVal(tv.Value)}
		}
	}
	switch x := e.(type) {
	case *ast.Ident:
		o := in.obj(x)
		if _, isNil := o.(*types.Nil); isNil {
			return rvType(nil)
		}
		if v, ok := in.Env[o]; ok {
			return v
		}
		if v, ok := o.(*types.Var); ok && v.Pkg() != nil && v.Parent() == v.Pkg().Scope() && in.depth < 6 {
			if r, ok := in.globalType(v); ok {
				return r
			}
		}
		return rvUnknown
	case *ast.SelectorExpr:
		if k := kindName(in.Info, x); k != "" {
			return rvKind(k)
		}
		return rvUnknown
	case *ast.UnaryExpr:
		v := in.Eval(x.X)
		if x.Op == token.NOT && v.K == "bool" {
			return rvBool(!v.B)
		}
		if v.K == "panic" {
			return v
		}
		return rvUnknown
	case *ast.BinaryExpr:
		return in.binary(x)
	case *ast.CallExpr:
		return in.call(x)
	case *ast.FuncLit:
		return RV{K: "func", Fn: x}
	}
	return rvUnknown
}

func (in *Interp) binary(x *ast.BinaryExpr) RV {
	switch x.Op {
	case token.LAND:
		l := in.Eval(x.X)
		if l.K == "panic" {
			return l
		}
		if l.K == "bool" && !l.B {
			return rvBool(false)
		}
		r := in.Eval(x.Y)
		if r.K == "bool" && !r.B {
			return rvBool(false) // whatever the (non-panicking) left operand is
		}
		if l.K == "bool" && r.K == "bool" {
			return rvBool(l.B && r.B)
		}
		if l.K == "bool" && l.B {
			return r
		}
		if r.K == "panic" {
			return r // the left operand is not known to be false: the right one may be evaluated
		}
		return rvUnknown
	case token.LOR:
		l := in.Eval(x.X)
		if l.K == "panic" {
			return l
		}
		if l.K == "bool" && l.B {
			return rvBool(true)
		}
		r := in.Eval(x.Y)
		if r.K == "bool" && r.B {
			return rvBool(true) // whatever the (non-panicking) left operand is
		}
		if l.K == "bool" && r.K == "bool" {
			return rvBool(l.B || r.B)
		}
		if l.K == "bool" && !l.B {
			return r
		}
		if r.K == "panic" {
			return r // the left operand is not known to be true: the right one may be evaluated
		}
		return rvUnknown
	}
	l, r := in.Eval(x.X), in.Eval(x.Y)
	if l.K == "panic" {
		return l
	}
	if r.K == "panic" {
		return r
	}
	if l.K == "unknown" || r.K == "unknown" || l.K != r.K {
		return rvUnknown
	}
	switch x.Op {
	case token.EQL, token.NEQ:
		var eq bool
		switch l.K {
		case "type":
			eq = l.T.Same(r.T)
			// two different named types can share a shape: equality of named shapes is not decidable
			if eq && l.T != nil && l.T.Named && l.T != r.T {
				return rvUnknown
			}
		case "bool":
			eq = l.B == r.B
		case "int":
			eq = l.I == r.I
		case "kind", "str":
			eq = l.S == r.S
		default:
			return rvUnknown
		}
		return rvBool(eq == (x.Op == token.EQL))
	case token.LSS, token.LEQ, token.GTR, token.GEQ:
		if l.K != "int" {
			return rvUnknown
		}
		switch x.Op {
		case token.LSS:
			return rvBool(l.I < r.I)
		case token.LEQ:
			return rvBool(l.I <= r.I)
		case token.GTR:
			return rvBool(l.I > r.I)
		default:
			return rvBool(l.I >= r.I)
		}
	case token.ADD, token.SUB:
		if l.K != "int" {
			return rvUnknown
		}
		if x.Op == token.ADD {
			return rvInt(l.I + r.I)
		}
		return rvInt(l.I - r.I)
	}
	return rvUnknown
}

var rvPanic = RV{K: "panic"}

func (in *Interp) call(c *ast.CallExpr) RV {
	// methods of reflect.Type on a model type
	if sel, ok := c.Fun.(*ast.SelectorExpr); ok {
		if s := in.Info.Selections[sel]; s != nil && s.Kind() == types.MethodVal {
			recv := in.Eval(sel.X)
			if recv.K == "panic" {
				return recv
			}
			if recv.K == "type" {
				return in.typeMethod(recv.T, sel.Sel.Name, c.Args)
			}
			if recv.K == "node" && sel.Sel.Name == "Type" && len(c.Args) == 0 && in.NodeType != nil {
				if t, ok := in.NodeType(recv.S); ok {
					return rvType(t)
				}
			}
			return rvUnknown
		}
	}
	// a local closure (`numeric := func() bool { return isNumber(l) && isNumber(r) }`): its body
	// is interpreted where it is called, over the variables it captures (writes to them inside
	// the closure are not carried out)
	if id, ok := Unparen(c.Fun).(*ast.Ident); ok && in.depth < 8 {
		if v, ok := in.Env[in.obj(id)]; ok && v.K == "func" && v.Fn != nil {
			sub := &Interp{P: in.P, Rel: in.Rel, Info: in.Info, Env: map[types.Object]RV{}, depth: in.depth + 1, NodeType: in.NodeType, Hook: in.Hook}
			for k, val := range in.Env {
				sub.Env[k] = val
			}
			i := 0
			if v.Fn.Type.Params != nil {
				for _, f := range v.Fn.Type.Params.List {
					for _, nm := range f.Names {
						if i < len(c.Args) {
							a := in.Eval(c.Args[i])
							if a.K == "panic" {
								return a
							}
							sub.Env[in.Info.Defs[nm]] = a
						}
						i++
					}
				}
			}
			st, r := sub.execList(v.Fn.Body.List)
			if st == stReturn {
				return r
			}
			return rvUnknown
		}
	}
	fn := CalleeOf(in.Info, c)
	if fn == nil || fn.Pkg() == nil {
		return rvUnknown
	}
	if fn.Pkg().Path() == "reflect" {
		switch fn.Name() {
		case "TypeOf":
			if len(c.Args) == 1 {
				t := in.Info.TypeOf(c.Args[0])
				if t != nil {
					// reflect.TypeOf(new(interface{})) → *interface{}
					if mt, ok := goTypeMT(t); ok {
						return rvType(mt)
					}
				}
			}
		case "SliceOf":
			if len(c.Args) == 1 {
				if a := in.Eval(c.Args[0]); a.K == "type" {
					if a.T == nil {
						return rvPanic
					}
					return rvType(&MT{Kind: "Slice", Elem: a.T})
				}
			}
		case "FuncOf":
			if len(c.Args) == 3 {
				mk := func(e ast.Expr) ([]*MT, string) {
					cl, ok := Unparen(e).(*ast.CompositeLit)
					if !ok {
						return nil, "unknown"
					}
					var out []*MT
					for _, el := range cl.Elts {
						v := in.Eval(el)
						if v.K == "panic" {
							return nil, "panic"
						}
						if v.K != "type" {
							return nil, "unknown"
						}
						if v.T == nil {
							return nil, "panic" // reflect.FuncOf panics on a nil element
						}
						out = append(out, v.T)
					}
					return out, ""
				}
				ins, e1 := mk(c.Args[0])
				outs, e2 := mk(c.Args[1])
				if e1 == "panic" || e2 == "panic" {
					return rvPanic
				}
				if e1 == "" && e2 == "" {
					v := in.Eval(c.Args[2])
					return rvType(&MT{Kind: "Func", In: ins, Out: outs, Variadic: v.K == "bool" && v.B})
				}
			}
		case "PtrTo", "PointerTo":
			if len(c.Args) == 1 {
				if a := in.Eval(c.Args[0]); a.K == "type" {
					if a.T == nil {
						return rvPanic
					}
					return rvType(&MT{Kind: "Ptr", Elem: a.T})
				}
			}
		}
		return rvUnknown
	}
	// library functions with a body: interpret
	if _, lib := in.P.RelOf(fn.Pkg()); lib && in.depth < 8 {
		rel, fd := in.P.DeclOf(fn)
		if fd != nil && fd.Body != nil && fd.Recv == nil {
			var args []RV
			for _, a := range c.Args {
				args = append(args, in.Eval(a))
			}
			for _, a := range args {
				if a.K == "panic" {
					return a
				}
			}
			return in.CallFunc(rel, fd, args)
		}
	}
	return rvUnknown
}

func (in *Interp) typeMethod(t *MT, name string, args []ast.Expr) RV {
	if t == nil {
		return rvPanic // method call on a nil reflect.Type
	}
	idx := func() (int64, bool) {
		if len(args) != 1 {
			return 0, false
		}
		v := in.Eval(args[0])
		return v.I, v.K == "int"
	}
	switch name {
	case "Kind":
		return rvKind(t.Kind)
	case "PkgPath":
		if t.Named {
			return RV{K: "str", S: "pkg"}
		}
		return RV{K: "str", S: ""}
	case "Name":
		// predeclared basic types have a name; unnamed composite types have none
		switch t.Kind {
		case "Ptr", "Slice", "Array", "Map", "Func", "Chan", "Struct", "Interface":
			if t.Named {
				return RV{K: "str", S: "T"}
			}
			return RV{K: "str", S: ""}
		}
		return RV{K: "str", S: strings.ToLower(t.Kind)}
	case "NumMethod":
		return rvInt(int64(t.NumMethod))
	case "Elem":
		switch t.Kind {
		case "Ptr", "Slice", "Array", "Map", "Chan":
			if t.Elem == nil {
				return rvUnknown
			}
			return rvType(t.Elem)
		}
		return rvPanic
	case "Key":
		if t.Kind == "Map" && t.Key != nil {
			return rvType(t.Key)
		}
		return rvPanic
	case "IsVariadic":
		if t.Kind != "Func" {
			return rvPanic
		}
		return rvBool(t.Variadic)
	case "NumIn":
		if t.Kind != "Func" {
			return rvPanic
		}
		return rvInt(int64(len(t.In)))
	case "NumOut":
		if t.Kind != "Func" {
			return rvPanic
		}
		return rvInt(int64(len(t.Out)))
	case "In", "Out":
		if t.Kind != "Func" {
			return rvPanic
		}
		i, ok := idx()
		if !ok {
			return rvUnknown
		}
		l := t.In
		if name == "Out" {
			l = t.Out
		}
		if i < 0 || int(i) >= len(l) {
			return rvPanic
		}
		return rvType(l[i])
	}
	return rvUnknown
}

type execStatus int

const (
	stNormal execStatus = iota
	stReturn
	stAbort
	stFallthrough
	stBreak
)

// CallFunc interprets a function of the library on model arguments.
func (in *Interp) CallFunc(rel string, fd *ast.FuncDecl, args []RV) RV {
	sub := &Interp{P: in.P, Rel: rel, Info: in.P.Pkg(rel).TypesInfo, Env: map[types.Object]RV{}, depth: in.depth + 1, NodeType: in.NodeType}
	i := 0
	if fd.Type.Params != nil {
		for _, f := range fd.Type.Params.List {
			for _, nm := range f.Names {
				if i < len(args) {
					sub.Env[sub.Info.Defs[nm]] = args[i]
				}
				i++
			}
		}
	}
	st, v := sub.execList(fd.Body.List)
	if st == stReturn {
		return v
	}
	return rvUnknown
}

func (in *Interp) execList(list []ast.Stmt) (execStatus, RV) {
	for _, s := range list {
		st, v := in.exec(s)
		if st != stNormal {
			return st, v
		}
	}
	return stNormal, RV{}
}

// Assign executes an assignment statement (exported for path-wise evaluation).
func (in *Interp) Assign(s *ast.AssignStmt) {
	if len(s.Rhs) == 1 && len(s.Lhs) > 1 {
		v := in.Eval(s.Rhs[0])
		for i, l := range s.Lhs {
			id, ok := l.(*ast.Ident)
			if !ok || id.Name == "_" {
				continue
			}
			if v.K == "tuple" && i < len(v.Tup) {
				in.Env[in.obj(id)] = v.Tup[i]
			} else {
				in.Env[in.obj(id)] = rvUnknown
			}
		}
		return
	}
	if len(s.Lhs) != len(s.Rhs) {
		return
	}
	vals := make([]RV, len(s.Rhs))
	for i, r := range s.Rhs {
		vals[i] = in.Eval(r)
	}
	for i, l := range s.Lhs {
		id, ok := l.(*ast.Ident)
		if !ok || id.Name == "_" {
			continue
		}
		switch s.Tok {
		case token.ASSIGN, token.DEFINE:
			in.Env[in.obj(id)] = vals[i]
		default:
			in.Env[in.obj(id)] = rvUnknown
		}
	}
}

func (in *Interp) exec(s ast.Stmt) (execStatus, RV) {
	switch x := s.(type) {
	case *ast.AssignStmt:
		in.Assign(x)
		return stNormal, RV{}
	case *ast.DeclStmt, *ast.EmptyStmt:
		return stNormal, RV{}
	case *ast.ExprStmt:
		if v := in.Eval(x.X); v.K == "panic" {
			return stReturn, v
		}
		return stNormal, RV{}
	case *ast.ReturnStmt:
		if len(x.Results) == 1 {
			return stReturn, in.Eval(x.Results[0])
		}
		var tup []RV
		for _, r := range x.Results {
			tup = append(tup, in.Eval(r))
		}
		return stReturn, RV{K: "tuple", Tup: tup}
	case *ast.BlockStmt:
		return in.execList(x.List)
	case *ast.IfStmt:
		if x.Init != nil {
			if st, v := in.exec(x.Init); st != stNormal {
				return st, v
			}
		}
		c := in.Eval(x.Cond)
		switch {
		case c.K == "panic":
			return stReturn, c
		case c.K != "bool":
			// unknown condition: both branches may run; a panic in either is a possible panic,
			// variables the branches leave different become unknown
			base := in.Env
			run := func(body func() (execStatus, RV)) (execStatus, RV, map[types.Object]RV) {
				in.Env = map[types.Object]RV{}
				for k, v := range base {
					in.Env[k] = v
				}
				st, v := body()
				return st, v, in.Env
			}
			st1, v1, e1 := run(func() (execStatus, RV) { return in.execList(x.Body.List) })
			st2, v2, e2 := run(func() (execStatus, RV) {
				if x.Else != nil {
					return in.exec(x.Else)
				}
				return stNormal, RV{}
			})
			in.Env = base
			if st1 == stReturn && v1.K == "panic" {
				return st1, v1
			}
			if st2 == stReturn && v2.K == "panic" {
				return st2, v2
			}
			if st1 == stNormal && st2 == stNormal {
				merged := map[types.Object]RV{}
				for k, a := range e1 {
					if b, ok := e2[k]; ok && a.K == b.K && a.B == b.B && a.I == b.I && a.S == b.S && a.T.Same(b.T) && a.K != "tuple" {
						merged[k] = a
					} else {
						merged[k] = rvUnknown
					}
				}
				in.Env = merged
				return stNormal, RV{}
			}
			return stAbort, rvUnknown
		case c.B:
			return in.execList(x.Body.List)
		case x.Else != nil:
			return in.exec(x.Else)
		}
		return stNormal, RV{}
	case *ast.SwitchStmt:
		if x.Init != nil {
			if st, v := in.exec(x.Init); st != stNormal {
				return st, v
			}
		}
		var tag RV
		if x.Tag != nil {
			tag = in.Eval(x.Tag)
			if tag.K == "panic" {
				return stReturn, tag
			}
			if tag.K == "unknown" {
				return stAbort, rvUnknown
			}
		}
		clauses := x.Body.List
		start := -1
		def := -1
		for i, c := range clauses {
			cc := c.(*ast.CaseClause)
			if cc.List == nil {
				def = i
				continue
			}
			for _, e := range cc.List {
				v := in.Eval(e)
				if x.Tag == nil {
					if v.K != "bool" {
						return stAbort, rvUnknown
					}
					if v.B && start < 0 {
						start = i
					}
					continue
				}
				if v.K != tag.K {
					return stAbort, rvUnknown
				}
				if (v.K == "kind" || v.K == "str") && v.S == tag.S || v.K == "int" && v.I == tag.I || v.K == "bool" && v.B == tag.B {
					if start < 0 {
						start = i
					}
				}
			}
			if start >= 0 {
				break
			}
		}
		if start < 0 {
			start = def
		}
		if start < 0 {
			return stNormal, RV{}
		}
		for i := start; i < len(clauses); i++ {
			st, v := in.execList(clauses[i].(*ast.CaseClause).Body)
			switch st {
			case stFallthrough:
				continue
			case stBreak:
				return stNormal, RV{}
			default:
				return st, v
			}
		}
		return stNormal, RV{}
	case *ast.BranchStmt:
		switch x.Tok {
		case token.FALLTHROUGH:
			return stFallthrough, RV{}
		case token.BREAK:
			return stBreak, RV{}
		}
		return stAbort, rvUnknown
	}
	return stAbort, rvUnknown
}

// IsPanic reports whether the value is the result of an operation that panics on the model
// (a method call on the nil type, an index out of the parameter / result range, Elem / Key /
// NumIn … on a kind that does not have them).
func (v RV) IsPanic() bool { return v.K == "panic" }
