// Package eng: the shared analyses (engines E1–E7 of DESIGN.md).
package eng

import (
	"fmt"
	"go/ast"
	"go/token"
	"go/types"
)

// Atom is one step of a syntactic path through a function body, in evaluation order.
type Atom struct {
	Kind   string // call assign incdec decl cond case loop return panic funclit defer go send other
	Node   ast.Node
	Call   *ast.CallExpr
	Taken  bool          // cond: which edge
	Case   *CaseInfo     // case
	Body   []Path        // loop: paths through the body (one iteration)
	Loop   ast.Stmt      // loop: the *ast.ForStmt or *ast.RangeStmt
	Depth  int           // inlining depth at which the atom was produced
	Callee *ast.FuncDecl // for inlined regions: set on "enter"/"leave" atoms
	Owner  ast.Stmt      // cond / join: the if statement
	Lit    *ast.FuncLit  // enterlit / leavelit
}

type CaseInfo struct {
	Switch   ast.Stmt // *ast.SwitchStmt or *ast.TypeSwitchStmt
	Tag      ast.Expr // switch tag (nil for tagless), or the x of x.(type)
	Clause   *ast.CaseClause
	Default  bool // the default clause
	Implicit bool // no clause matched and the switch has no default
}

type Path struct {
	Atoms []Atom
	Term  string // fall return panic break continue goto:<label> exit
}

// Walker enumerates paths. Inline may return the body of a call to be inlined
// (a FuncDecl of the same package or a FuncLit bound to the called identifier).
type Walker struct {
	Info     *types.Info
	Inline   func(call *ast.CallExpr, depth int) (body *ast.BlockStmt, callee *ast.FuncDecl)
	MaxPaths int
	MaxDepth int
	Overflow bool
	// IsPanic decides whether a call never returns (besides the builtin panic).
	IsPanic func(call *ast.CallExpr) bool
	// InlineLits: calls of a parameter that is bound to a function literal at an inlined
	// call site are inlined too (higher-order helpers such as emitLoop(func(){…})).
	InlineLits bool
	frames     []map[types.Object]ast.Expr
}

func (w *Walker) maxPaths() int {
	if w.MaxPaths == 0 {
		return 20000
	}
	return w.MaxPaths
}

// Func enumerates the paths through a body.
func (w *Walker) Func(body *ast.BlockStmt) []Path {
	ps := w.list(body.List, []Path{{}}, 0)
	for i := range ps {
		if ps[i].Term == "" {
			ps[i].Term = "fall"
		}
	}
	return ps
}

func clonePath(p Path) Path {
	a := make([]Atom, len(p.Atoms), len(p.Atoms)+8)
	copy(a, p.Atoms)
	return Path{Atoms: a, Term: p.Term}
}

func (w *Walker) add(ps []Path, a Atom) []Path {
	for i := range ps {
		if ps[i].Term == "" {
			ps[i].Atoms = append(ps[i].Atoms, a)
		}
	}
	return ps
}

func live(ps []Path) (liveP, done []Path) {
	for _, p := range ps {
		if p.Term == "" {
			liveP = append(liveP, p)
		} else {
			done = append(done, p)
		}
	}
	return
}

// list walks a statement list; handles forward gotos to labels inside the list.
func (w *Walker) list(stmts []ast.Stmt, in []Path, depth int) []Path {
	cur := in
	var parked []Path // paths waiting at "goto:L" for a label later in this list
	for _, s := range stmts {
		if ls, ok := s.(*ast.LabeledStmt); ok {
			// paths that jumped here resume
			var still []Path
			for _, p := range parked {
				if p.Term == "goto:"+ls.Label.Name {
					p.Term = ""
					cur = append(cur, p)
				} else {
					still = append(still, p)
				}
			}
			parked = still
			s = ls.Stmt
		}
		l, d := live(cur)
		if len(l) == 0 {
			cur = d
			continue
		}
		out := w.stmt(s, l, depth)
		cur = d
		for _, p := range out {
			if len(p.Term) > 5 && p.Term[:5] == "goto:" {
				parked = append(parked, p)
			} else {
				cur = append(cur, p)
			}
		}
		if len(cur)+len(parked) > w.maxPaths() {
			w.Overflow = true
			return append(cur, parked...)
		}
	}
	return append(cur, parked...)
}

func (w *Walker) stmt(s ast.Stmt, in []Path, depth int) []Path {
	switch s := s.(type) {
	case nil:
		return in
	case *ast.BlockStmt:
		return w.list(s.List, in, depth)
	case *ast.ExprStmt:
		if call, ok := s.X.(*ast.CallExpr); ok && w.isPanic(call) {
			in = w.exprs(in, depth, call.Args...)
			in = w.add(in, Atom{Kind: "panic", Node: call, Call: call, Depth: depth})
			for i := range in {
				if in[i].Term == "" {
					in[i].Term = "panic"
				}
			}
			return in
		}
		return w.exprs(in, depth, s.X)
	case *ast.AssignStmt:
		in = w.exprs(in, depth, s.Rhs...)
		// index / selector expressions on the left may contain calls too
		for _, l := range s.Lhs {
			switch l := l.(type) {
			case *ast.IndexExpr:
				in = w.exprs(in, depth, l.X, l.Index)
			case *ast.SelectorExpr:
				in = w.exprs(in, depth, l.X)
			case *ast.StarExpr:
				in = w.exprs(in, depth, l.X)
			}
		}
		return w.add(in, Atom{Kind: "assign", Node: s, Depth: depth})
	case *ast.IncDecStmt:
		return w.add(in, Atom{Kind: "incdec", Node: s, Depth: depth})
	case *ast.DeclStmt:
		if gd, ok := s.Decl.(*ast.GenDecl); ok {
			for _, sp := range gd.Specs {
				if vs, ok := sp.(*ast.ValueSpec); ok {
					in = w.exprs(in, depth, vs.Values...)
				}
			}
		}
		return w.add(in, Atom{Kind: "decl", Node: s, Depth: depth})
	case *ast.ReturnStmt:
		in = w.exprs(in, depth, s.Results...)
		in = w.add(in, Atom{Kind: "return", Node: s, Depth: depth})
		for i := range in {
			if in[i].Term == "" {
				in[i].Term = "return"
			}
		}
		return in
	case *ast.BranchStmt:
		t := ""
		switch s.Tok {
		case token.BREAK:
			t = "break"
			if s.Label != nil {
				t = "break:" + s.Label.Name
			}
		case token.CONTINUE:
			t = "continue"
		case token.GOTO:
			t = "goto:" + s.Label.Name
		case token.FALLTHROUGH:
			t = "fallthrough"
		}
		for i := range in {
			if in[i].Term == "" {
				in[i].Term = t
			}
		}
		return in
	case *ast.IfStmt:
		in = w.stmt(s.Init, in, depth)
		out := w.cond(s, s.Cond, in, depth, func(t []Path) []Path { return w.stmt(s.Body, t, depth) }, func(f []Path) []Path {
			if s.Else != nil {
				return w.stmt(s.Else, f, depth)
			}
			return f
		})
		return w.add(out, Atom{Kind: "join", Node: s, Owner: s, Depth: depth})
	case *ast.SwitchStmt:
		in = w.stmt(s.Init, in, depth)
		if s.Tag != nil {
			in = w.exprs(in, depth, s.Tag)
		}
		return w.clauses(s, s.Tag, s.Body, in, depth)
	case *ast.TypeSwitchStmt:
		in = w.stmt(s.Init, in, depth)
		var x ast.Expr
		switch a := s.Assign.(type) {
		case *ast.AssignStmt:
			x = a.Rhs[0].(*ast.TypeAssertExpr).X
		case *ast.ExprStmt:
			x = a.X.(*ast.TypeAssertExpr).X
		}
		in = w.exprs(in, depth, x)
		return w.clauses(s, x, s.Body, in, depth)
	case *ast.ForStmt:
		in = w.stmt(s.Init, in, depth)
		body := w.loopBody(s.Body, depth)
		return w.add(in, Atom{Kind: "loop", Node: s, Loop: s, Body: body, Depth: depth})
	case *ast.RangeStmt:
		in = w.exprs(in, depth, s.X)
		body := w.loopBody(s.Body, depth)
		return w.add(in, Atom{Kind: "loop", Node: s, Loop: s, Body: body, Depth: depth})
	case *ast.DeferStmt:
		return w.add(in, Atom{Kind: "defer", Node: s, Call: s.Call, Depth: depth})
	case *ast.GoStmt:
		return w.add(in, Atom{Kind: "go", Node: s, Call: s.Call, Depth: depth})
	case *ast.SendStmt:
		in = w.exprs(in, depth, s.Chan, s.Value)
		return w.add(in, Atom{Kind: "send", Node: s, Depth: depth})
	case *ast.LabeledStmt:
		return w.stmt(s.Stmt, in, depth)
	case *ast.EmptyStmt:
		return in
	default:
		return w.add(in, Atom{Kind: "other", Node: s, Depth: depth})
	}
}

// loopBody enumerates one iteration; for a ForStmt the condition is not modelled (clients
// inspect Loop).
func (w *Walker) loopBody(b *ast.BlockStmt, depth int) []Path {
	ps := w.list(b.List, []Path{{}}, depth)
	for i := range ps {
		if ps[i].Term == "" {
			ps[i].Term = "fall"
		}
	}
	return ps
}

// cond forks on a boolean condition; && and || are not split (the whole expression is one
// test), but calls inside the condition are emitted first.
func (w *Walker) cond(owner ast.Stmt, c ast.Expr, in []Path, depth int, thenF, elseF func([]Path) []Path) []Path {
	in = w.exprs(in, depth, c)
	l, d := live(in)
	var tp, fp []Path
	for _, p := range l {
		t := clonePath(p)
		t.Atoms = append(t.Atoms, Atom{Kind: "cond", Node: c, Taken: true, Depth: depth, Owner: owner})
		f := clonePath(p)
		f.Atoms = append(f.Atoms, Atom{Kind: "cond", Node: c, Taken: false, Depth: depth, Owner: owner})
		tp = append(tp, t)
		fp = append(fp, f)
	}
	out := append(d, thenF(tp)...)
	out = append(out, elseF(fp)...)
	if len(out) > w.maxPaths() {
		w.Overflow = true
	}
	return out
}

func (w *Walker) clauses(sw ast.Stmt, tag ast.Expr, body *ast.BlockStmt, in []Path, depth int) []Path {
	l, d := live(in)
	out := d
	hasDefault := false
	for _, c := range body.List {
		cc := c.(*ast.CaseClause)
		if cc.List == nil {
			hasDefault = true
		}
		var ps []Path
		for _, p := range l {
			q := clonePath(p)
			q.Atoms = append(q.Atoms, Atom{Kind: "case", Node: cc, Depth: depth, Case: &CaseInfo{Switch: sw, Tag: tag, Clause: cc, Default: cc.List == nil}})
			ps = append(ps, q)
		}
		// case expressions of a tagless switch may contain calls
		if _, isType := sw.(*ast.TypeSwitchStmt); !isType {
			ps = w.exprs(ps, depth, cc.List...)
		}
		ps = w.list(cc.Body, ps, depth)
		for i := range ps {
			if ps[i].Term == "break" {
				ps[i].Term = ""
			}
			if ps[i].Term == "fallthrough" {
				ps[i].Term = "" // approximated: continues after the switch (not used in the repo's analysed code)
			}
		}
		out = append(out, ps...)
	}
	if !hasDefault {
		for _, p := range l {
			q := clonePath(p)
			q.Atoms = append(q.Atoms, Atom{Kind: "case", Node: sw, Depth: depth, Case: &CaseInfo{Switch: sw, Tag: tag, Implicit: true}})
			out = append(out, q)
		}
	}
	if len(out) > w.maxPaths() {
		w.Overflow = true
	}
	return out
}

func (w *Walker) isPanic(call *ast.CallExpr) bool {
	if id, ok := call.Fun.(*ast.Ident); ok && id.Name == "panic" {
		if w.Info == nil {
			return true
		}
		if _, isB := w.Info.Uses[id].(*types.Builtin); isB {
			return true
		}
	}
	if w.IsPanic != nil && w.IsPanic(call) {
		return true
	}
	return false
}

// exprs emits call atoms found in the expressions, in evaluation order (operands before the
// call that uses them); function literals are not entered.
func (w *Walker) exprs(in []Path, depth int, es ...ast.Expr) []Path {
	for _, e := range es {
		in = w.expr(in, depth, e)
	}
	return in
}

func (w *Walker) expr(in []Path, depth int, e ast.Expr) []Path {
	switch e := e.(type) {
	case nil:
		return in
	case *ast.CallExpr:
		// conversion? then only operands
		in = w.expr(in, depth, e.Fun)
		for _, a := range e.Args {
			in = w.expr(in, depth, a)
		}
		if w.isPanic(e) {
			in = w.add(in, Atom{Kind: "panic", Node: e, Call: e, Depth: depth})
			for i := range in {
				if in[i].Term == "" {
					in[i].Term = "panic"
				}
			}
			return in
		}
		if w.InlineLits && w.Info != nil {
			if id, ok := Unparen(e.Fun).(*ast.Ident); ok {
				if lit := w.boundLit(id); lit != nil {
					in = w.add(in, Atom{Kind: "enterlit", Node: e, Call: e, Depth: depth, Lit: lit})
					l, d := live(in)
					saved := w.frames
					w.frames = w.frames[:len(w.frames)-1] // the literal's body runs in the caller's frame
					sub := w.list(lit.Body.List, l, depth+1)
					w.frames = saved
					for i := range sub {
						if sub[i].Term == "return" || sub[i].Term == "fall" {
							sub[i].Term = ""
						}
					}
					in = append(d, sub...)
					return w.add(in, Atom{Kind: "leavelit", Node: e, Call: e, Depth: depth, Lit: lit})
				}
			}
		}
		if w.Inline != nil && depth < w.maxDepth() {
			if body, callee := w.Inline(e, depth); body != nil {
				in = w.add(in, Atom{Kind: "enter", Node: e, Call: e, Depth: depth, Callee: callee})
				l, d := live(in)
				if w.InlineLits && callee != nil && w.Info != nil {
					fr := map[types.Object]ast.Expr{}
					i := 0
					if callee.Type.Params != nil {
						for _, f := range callee.Type.Params.List {
							for _, nm := range f.Names {
								if i < len(e.Args) {
									fr[w.Info.Defs[nm]] = e.Args[i]
								}
								i++
							}
						}
					}
					w.frames = append(w.frames, fr)
					defer func() { w.frames = w.frames[:len(w.frames)-1] }()
				}
				sub := w.list(body.List, l, depth+1)
				for i := range sub {
					if sub[i].Term == "return" || sub[i].Term == "fall" {
						sub[i].Term = ""
					}
				}
				in = append(d, sub...)
				in = w.add(in, Atom{Kind: "leave", Node: e, Call: e, Depth: depth, Callee: callee})
				return in
			}
		}
		return w.add(in, Atom{Kind: "call", Node: e, Call: e, Depth: depth})
	case *ast.FuncLit:
		return w.add(in, Atom{Kind: "funclit", Node: e, Depth: depth})
	case *ast.ParenExpr:
		return w.expr(in, depth, e.X)
	case *ast.SelectorExpr:
		return w.expr(in, depth, e.X)
	case *ast.IndexExpr:
		in = w.expr(in, depth, e.X)
		return w.expr(in, depth, e.Index)
	case *ast.SliceExpr:
		in = w.expr(in, depth, e.X)
		in = w.expr(in, depth, e.Low)
		in = w.expr(in, depth, e.High)
		return w.expr(in, depth, e.Max)
	case *ast.StarExpr:
		return w.expr(in, depth, e.X)
	case *ast.UnaryExpr:
		return w.expr(in, depth, e.X)
	case *ast.BinaryExpr:
		in = w.expr(in, depth, e.X)
		return w.expr(in, depth, e.Y)
	case *ast.KeyValueExpr:
		in = w.expr(in, depth, e.Key)
		return w.expr(in, depth, e.Value)
	case *ast.CompositeLit:
		for _, el := range e.Elts {
			in = w.expr(in, depth, el)
		}
		return in
	case *ast.TypeAssertExpr:
		return w.expr(in, depth, e.X)
	}
	return in
}

// boundLit: the function literal a parameter of the innermost inlined callee is bound to.
func (w *Walker) boundLit(id *ast.Ident) *ast.FuncLit {
	if len(w.frames) == 0 {
		return nil
	}
	obj := w.Info.Uses[id]
	if e, ok := w.frames[len(w.frames)-1][obj]; ok {
		if lit, ok := Unparen(e).(*ast.FuncLit); ok {
			return lit
		}
	}
	return nil
}

func (w *Walker) maxDepth() int {
	if w.MaxDepth == 0 {
		return 3
	}
	return w.MaxDepth
}

// ExprStr renders an expression compactly (literals kept).
func ExprStr(e ast.Node) string {
	switch e := e.(type) {
	case nil:
		return ""
	case *ast.Ident:
		return e.Name
	case *ast.BasicLit:
		return e.Value
	case *ast.SelectorExpr:
		return ExprStr(e.X) + "." + e.Sel.Name
	case *ast.StarExpr:
		return "*" + ExprStr(e.X)
	case *ast.ParenExpr:
		return "(" + ExprStr(e.X) + ")"
	case *ast.UnaryExpr:
		return e.Op.String() + ExprStr(e.X)
	case *ast.BinaryExpr:
		return ExprStr(e.X) + " " + e.Op.String() + " " + ExprStr(e.Y)
	case *ast.IndexExpr:
		return ExprStr(e.X) + "[" + ExprStr(e.Index) + "]"
	case *ast.SliceExpr:
		return ExprStr(e.X) + "[" + ExprStr(e.Low) + ":" + ExprStr(e.High) + "]"
	case *ast.CallExpr:
		s := ExprStr(e.Fun) + "("
		for i, a := range e.Args {
			if i > 0 {
				s += ", "
			}
			s += ExprStr(a)
		}
		if e.Ellipsis.IsValid() {
			s += "..."
		}
		return s + ")"
	case *ast.TypeAssertExpr:
		if e.Type == nil {
			return ExprStr(e.X) + ".(type)"
		}
		return ExprStr(e.X) + ".(" + ExprStr(e.Type) + ")"
	case *ast.CompositeLit:
		s := ExprStr(e.Type) + "{"
		for i, a := range e.Elts {
			if i > 0 {
				s += ", "
			}
			s += ExprStr(a)
		}
		return s + "}"
	case *ast.KeyValueExpr:
		return ExprStr(e.Key) + ": " + ExprStr(e.Value)
	case *ast.ArrayType:
		return "[" + ExprStr(e.Len) + "]" + ExprStr(e.Elt)
	case *ast.MapType:
		return "map[" + ExprStr(e.Key) + "]" + ExprStr(e.Value)
	case *ast.InterfaceType:
		return "interface{}"
	case *ast.FuncLit:
		return "func(){…}"
	case *ast.Ellipsis:
		return "..." + ExprStr(e.Elt)
	case *ast.FuncType:
		return "func(…)"
	case *ast.StructType:
		return "struct{…}"
	}
	return fmt.Sprintf("%T", e)
}

// Unparen strips parentheses.
func Unparen(e ast.Expr) ast.Expr {
	for {
		p, ok := e.(*ast.ParenExpr)
		if !ok {
			return e
		}
		e = p.X
	}
}
